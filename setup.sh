#!/bin/sh
# Offline setup: parse every spec module with SANY and byte-compile the harness.
set -e
cd "$(dirname "$0")"
for f in spec/Serif*.tla; do
  m=$(basename "$f" .tla)
  (cd spec && java -cp /opt/veriftools/tla/tla2tools.jar:/opt/veriftools/tla/CommunityModules-deps.jar tla2sany.SANY "$m.tla" > /tmp/sany-$$.log 2>&1) || { cat /tmp/sany-$$.log; rm -f /tmp/sany-$$.log; exit 1; }
  if grep -q "Semantic errors\|Parse Error" /tmp/sany-$$.log; then cat /tmp/sany-$$.log; rm -f /tmp/sany-$$.log; exit 1; fi
done
rm -f /tmp/sany-$$.log
/venv/bin/python -m compileall -q harness >/dev/null
mkdir -p evidence violations
echo "setup ok"
