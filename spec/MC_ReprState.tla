--------------------------- MODULE MC_ReprState ---------------------------
(* Model-checking and case-generation instance of SerifReprState.
   MC: Spec with the invariants and action properties, all settings reachable (tiny state space: exhaustive).
   Gen: the same actions with the observation history h; one CASE line per history of length Depth.            *)
EXTENDS SerifReprState, Sequences, Json
CONSTANT Depth
VARIABLE h
RowsDef == [o \in Vecs \cup Tabs |-> CASE o = "v10" -> 10 [] o = "v13" -> 13 [] o = "t13" -> 13 [] o = "t5" -> 5 [] OTHER -> 3]
GInit == Init /\ h = <<>>
GNext == Len(h) < Depth /\ Next /\ h' = Append(h, last')
GSpec == GInit /\ [][GNext]_<<vars, h>>
Emit == Len(h) = Depth => PrintT(<<"CASE", ToJson(h)>>)
MCNext == Next /\ UNCHANGED h
MCSpec == Init /\ h = <<>> /\ [][MCNext]_<<vars, h>>
=============================================================================
