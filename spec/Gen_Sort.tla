--------------------------- MODULE Gen_Sort ---------------------------
(* Case generator for C14: every key table in scope x direction vector x na_last, with
   THE stable permutation the specification demands.                                   *)
EXTENDS SerifSort, TLC, Json
CONSTANTS MaxRows, NKeys
KeyDom == {NoneV, 1, 2}
KeyTuples == [1..NKeys -> KeyDom]
KeyTables == SeqsUpTo(KeyTuples, MaxRows)
VARIABLE c
Init == \E K \in KeyTables, rev \in [1..NKeys -> BOOLEAN], naLast \in BOOLEAN :
          c = [K |-> K, rev |-> rev, naLast |-> naLast, perm |-> SortPerm(K, rev, naLast)]
Next == UNCHANGED c
Emit == PrintT(<<"CASE", ToJson(c)>>)
=============================================================================
