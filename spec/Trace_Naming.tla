--------------------------- MODULE Trace_Naming ---------------------------
(* Trace validator for accessor maps observed on the real library (arbitrary unicode names,
   any width).  Event: names (lower-cased, characters outside [a-z0-9_] replaced by "?"),
   cmap (the accessors the table advertises, in column order).                           *)
EXTENDS SerifNaming, Json, IOUtils
Trace == ndJsonDeserialize(IOEnv.TRACE_FILE)
Verdict(e) == IF ColumnMap(e.names) = e.cmap THEN "ok" ELSE "accessor_map"
Bad == {<<Trace[i].id, Verdict(Trace[i])>> : i \in {j \in 1..Len(Trace) : Verdict(Trace[j]) # "ok"}}
VARIABLE done
Init == done = FALSE
Next == done = FALSE /\ done' = TRUE /\ PrintT(<<"VERDICT", ToJson([n |-> Len(Trace), bad |-> Bad])>>)
=============================================================================
