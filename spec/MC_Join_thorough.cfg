SPECIFICATION Spec
CONSTANTS
  JoinDevs = {}
  MaxRows = 4
  NKeys = 1
  Expects = {"one_to_one", "many_to_one", "one_to_many", "many_to_many", "bogus"}
INVARIANT MachineIsDefinition
INVARIANT BucketsAscending
INVARIANT ExpectationIsFilter
CHECK_DEADLOCK FALSE
