--------------------------- MODULE Trace_Heap ---------------------------
(* Trace validator for SerifHeap (code -> spec).  Reads histories recorded from the real
   library (ndjson, env TRACE_FILE): one event per public call with its arguments in spec
   terms, the observed outcome and the observed projection of the whole object graph.
   Every event is stepped through the SAME action operators as the model checker uses and
   gets a total verdict: "ok" or the first clause that disagrees.  After a disagreement the
   rest of that history is skipped (its state is no longer known); {"a":"EOT"} starts a new
   history from the initial state.                                                        *)
EXTENDS SerifHeap, Json, IOUtils

Trace == ndJsonDeserialize(IOEnv.TRACE_FILE)

VARIABLES st, l, skip, bad
vars == <<st, l, skip, bad>>

ToSetOf(s) == {s[i] : i \in 1..Len(s)}
TabK(k) == 100 + k

(* canonical allocation exactly as MC_Heap does with Devs = {} *)
OneSid(S) == SetMin(FreeSids(S))
KSids(S, k) == LowestK(FreeSids(S), k)
KObjs(S, k) == LowestK(DeadObjs(S), k)

Enabled(S, e) ==
  CASE e.a \in {"NewVec", "Copy"} -> DeadObjs(S) # {} /\ FreeSids(S) # {}
    [] e.a = "ShareVec" -> DeadObjs(S) # {} /\ e.y \in S.usertup
    [] e.a = "DropTuple" -> e.y \in S.usertup
    [] e.a \in {"Drop", "ReadFpV", "Rename"} -> e.x \in LiveVec(S)
    [] e.a = "ConcatEmpty" -> e.x \in LiveVec(S) /\ DeadObjs(S) # {} /\ FreeSids(S) # {}
    [] e.a = "WriteRow" -> e.x \in LiveTab(S) /\ e.y \in 1..S.tlen[e.x] /\ Len(e.vs) = Len(S.cols[e.x])
                           /\ Cardinality(FreeSids(S)) >= Len(e.vs)
    [] e.a = "Write" -> e.x \in LiveVec(S) /\ FreeSids(S) # {} /\ e.z \in 1..Len(Contents(S, e.x))
    [] e.a = "WriteNone" -> e.x \in LiveVec(S) /\ FreeSids(S) # {}
    [] e.a = "NewTable" -> /\ DeadTabs(S) # {} /\ ToSetOf(e.vs) \subseteq LiveVec(S) /\ Len(e.vs) >= 1
                           /\ Cardinality(FreeSids(S)) >= Len(e.vs) + 1 /\ Cardinality(DeadObjs(S)) >= Len(e.vs)
    [] e.a = "SetAttr" -> /\ e.x \in LiveTab(S) /\ e.z \in LiveVec(S) /\ e.y \in 1..Len(S.cols[e.x])
                          /\ Cardinality(FreeSids(S)) >= 2 /\ DeadObjs(S) # {}
    [] e.a \in {"ColView", "RenameColumn"} -> e.x \in LiveTab(S) /\ e.y \in 1..Len(S.cols[e.x])
    [] e.a \in {"DropTable", "ReadFpT", "Lookup"} -> e.x \in LiveTab(S)
    [] OTHER -> FALSE

Apply(S, e) ==
  CASE e.a = "NewVec"    -> NewVec(S, e.vs, e.z = 1, OneSid(S))
    [] e.a = "ShareVec"  -> ShareVec(S, e.y)
    [] e.a = "DropTuple" -> DropTuple(S, e.y)
    [] e.a = "Copy"      -> CopyVec(S, e.x, OneSid(S))
    [] e.a = "Drop"      -> Drop(S, e.x)
    [] e.a = "ConcatEmpty" -> ConcatEmpty(S, e.x, OneSid(S))
    [] e.a = "WriteRow"  -> WriteRow(S, e.x, e.y, e.vs, KSids(S, Len(e.vs)))
    [] e.a = "Write"     -> WriteVec(S, e.x, e.z, e.w, OneSid(S))
    [] e.a = "WriteNone" -> WriteNone(S, e.x, OneSid(S))
    [] e.a = "ReadFpV"   -> ReadFpV(S, e.x)
    [] e.a = "NewTable"  -> NewTable(S, e.vs, KSids(S, Len(e.vs) + 1), KObjs(S, Len(e.vs)))
    [] e.a = "SetAttr"   -> LET ss == KSids(S, 2) IN SetAttr(S, e.x, e.y, e.z, ss[1], ss[2], KObjs(S, 1)[1])
    [] e.a = "ColView"   -> ColView(S, e.x, e.y)
    [] e.a = "DropTable" -> DropTable(S, e.x)
    [] e.a = "ReadFpT"   -> ReadFpT(S, e.x)
    [] e.a = "Rename"    -> Rename(S, e.x, e.nm)
    [] e.a = "RenameColumn" -> RenameColumn(S, e.x, e.y, e.nm)
    [] e.a = "Lookup"    -> Lookup(S, e.x, e.nm, e.how)

(* first clause on which the observed projection differs from the spec state *)
Clause(r, e) ==
  LET P == r.st  o == e.post IN
  IF r.res # e.res THEN
       (IF e.a \in {"Write", "WriteRow", "WriteNone"} /\ r.res = "Ok" /\ e.res = "Refused" THEN "spurious_refusal"
        ELSE IF e.a \in {"Write", "WriteRow", "WriteNone"} /\ r.res = "Refused" /\ e.res = "Ok" THEN "note_cow_instead_of_refusal"
        ELSE IF e.a = "NewTable" \/ (e.a = "SetAttr" /\ r.res = "Err") THEN "ragged_outcome"
        ELSE IF e.a = "SetAttr" THEN "setattr_error"
        ELSE IF e.a = "Lookup" THEN "lookup"
        ELSE IF e.a \in {"Write", "WriteNone"} THEN "write_error" ELSE "outcome")
  ELSE IF ToSetOf(o.live) # P.live THEN "liveness"
  ELSE IF \E x \in LiveVec(P) : o.store[x] \notin Sid THEN "contents"      \* storage the recorder could not account for
  ELSE IF \E x \in LiveVec(P) : o.heap[o.store[x]] # Contents(P, x) THEN "contents"
  ELSE IF \E x, y \in LiveVec(P) : (o.store[x] = o.store[y]) # (P.store[x] = P.store[y]) THEN "sharing"
  ELSE IF \E x \in LiveVec(P) : o.kind[x] # P.kind[x] \/ o.nullable[x] # P.nullable[x] THEN "dtype"
  ELSE IF \E x \in LiveVec(P) : o.name[x] # P.name[x] THEN "name"
  ELSE IF \E k \in 1..NTab : TabK(k) \in P.live /\ o.cols[k] # P.cols[TabK(k)] THEN "structure"
  ELSE IF \E k \in 1..NTab : TabK(k) \in P.live /\ (o.tlen[k] # P.tlen[TabK(k)] \/ ~o.rect[k]) THEN "rectangular"
  ELSE IF \E k \in 1..NTab : TabK(k) \in P.live /\ ~o.rows_ok[k] THEN "row_view"
  ELSE IF o.reg_stale # <<>> \/ \E s \in 1..NSid : ~(ToSetOf(o.reg[s]) \subseteq P.reg[s]) THEN "registry"
  ELSE IF ~o.fp_ok THEN "fp_value"
  ELSE "ok"

Init == st = InitState /\ l = 1 /\ skip = FALSE /\ bad = {}
Step ==
  /\ l <= Len(Trace)
  /\ l' = l + 1
  /\ LET e == Trace[l] IN
     IF e.a = "EOT" THEN st' = InitState /\ skip' = FALSE /\ bad' = bad
     ELSE IF skip THEN UNCHANGED <<st, skip, bad>>
     ELSE IF ~Enabled(st, e) THEN st' = st /\ skip' = TRUE /\ bad' = bad \cup {<<e.tid, e.i, "not_enabled">>}
     ELSE LET r == Apply(st, e)  c == Clause(r, e) IN
          IF c = "ok" THEN st' = r.st /\ skip' = FALSE /\ bad' = bad
          ELSE st' = st /\ skip' = TRUE /\ bad' = bad \cup {<<e.tid, e.i, c>>}
Done == l = Len(Trace) + 1 /\ UNCHANGED vars
Next == Step \/ Done
Finished == l = Len(Trace) + 1 => PrintT(<<"VERDICT", ToJson([n |-> Len(Trace), bad |-> bad])>>)
=============================================================================
