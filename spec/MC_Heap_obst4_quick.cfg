SPECIFICATION Spec
CONSTANTS
  NObj = 2
  NTab = 1
  NSid = 5
  Devs = {}
  Acts = {"NewVec", "NewTable", "Write", "Observe"}
  Lens = {2}
  Vals = {0, 1}
  NameSet = {"-"}
  MaxDepth = 8
  MaxCols = 1
  Emit = FALSE
  ObsV = {}
  ObsT = {"agg", "sort", "join"}
VIEW View
CONSTRAINT Bound
INVARIANT InvRegistryExact
INVARIANT InvNoSpuriousRefusal
INVARIANT InvOwnership
INVARIANT InvRect
INVARIANT InvSharingJustified
INVARIANT InvFpCoherent
INVARIANT InvDtypeTruthful
INVARIANT InvSane
INVARIANT InvCmap
INVARIANT InvRefusalJustified
INVARIANT InvFpReadCurrent
INVARIANT InvLookupCurrent
ACTION_CONSTRAINT StepProps
CHECK_DEADLOCK FALSE
