SPECIFICATION Spec
CONSTANTS
  NObj = 4
  NTab = 1
  NSid = 6
  Devs = {}
  Acts = {"WriteNone", "WriteRow", "ConcatEmpty", "NewVec", "Copy", "Drop", "Write", "NewTable", "SetAttr", "ColView", "DropTable", "ReadFp", "ReadFpT"}
  Lens = {1, 2}
  Vals = {0, 1}
  NameSet = {"-"}
  MaxDepth = 5
  MaxCols = 1
  Emit = FALSE
  ObsV = {}
  ObsT = {}
VIEW View
CONSTRAINT Bound
INVARIANT InvRegistryExact
INVARIANT InvNoSpuriousRefusal
INVARIANT InvOwnership
INVARIANT InvRect
INVARIANT InvSharingJustified
INVARIANT InvFpCoherent
INVARIANT InvDtypeTruthful
INVARIANT InvSane
INVARIANT InvCmap
INVARIANT InvRefusalJustified
INVARIANT InvFpReadCurrent
INVARIANT InvLookupCurrent
ACTION_CONSTRAINT StepProps
CHECK_DEADLOCK FALSE
