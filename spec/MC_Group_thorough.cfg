SPECIFICATION Spec
CONSTANTS
  MaxRows = 4
  NKeys = 1
INVARIANT MachineIsDefinition
INVARIANT Laws
CHECK_DEADLOCK FALSE
