--------------------------- MODULE Gen_Naming ---------------------------
(* Case generator for C17 / C18: every name list of width <= MaxW over the pool of names
   supplied by the binding, with the accessor map the design demands; aggregate naming.  *)
EXTENDS SerifNaming, Json
CONSTANTS Pool, MaxW, Suite
VARIABLE c
NameLists == UNION {[1..w -> Pool \cup {NoNm}] : w \in 1..MaxW}
AggSuffixes == {<<"s","u","m">>, <<"m","a","x">>}
Init == \/ (Suite = "accessors" /\ \E names \in NameLists :
              c = [suite |-> "accessors", names |-> names, cmap |-> ColumnMap(names),
                   first |-> [i \in 1..Len(names) |-> IF names[i] = NoNm THEN 0 ELSE StringIndex(names, names[i])]])
        \/ (Suite = "sanitize" /\ \E n \in Pool : c = [suite |-> "sanitize", names |-> <<n>>, cmap |-> <<Sanitize(n)>>, first |-> <<1>>])
        \/ (Suite = "agg" /\ \E k \in Pool \cup {NoNm}, a \in Pool \cup {NoNm}, b \in Pool \cup {NoNm}, sa \in AggSuffixes, sb \in AggSuffixes :
              /\ ~(sa = <<"m","a","x">> /\ sb = <<"s","u","m">>)       \* built-ins are emitted in a fixed order (sum before max)
              /\ c = [suite |-> "agg", names |-> <<k, a, b>>, cmap |-> AggNames(<<k>>, <<<<a, sa>>, <<b, sb>>>>),
                   first |-> <<1>>, sfx |-> <<sa, sb>>])
Next == UNCHANGED c
Emit == PrintT(<<"CASE", ToJson(c)>>)
Laws == c.suite = "accessors" => AccessorLaws(c.names)
AggDistinct == c.suite = "agg" => \A i, j \in 1..Len(c.cmap) : i # j => c.cmap[i] # c.cmap[j]
=============================================================================
