--------------------------- MODULE Gen_Naming ---------------------------
(* Case generator for C17 / C18: every name list of width <= MaxW over the pool of names
   supplied by the binding, with the accessor map the design demands; aggregate naming.  *)
EXTENDS SerifNaming, Json
CONSTANTS Pool, MaxW, Suite
VARIABLE c
NameLists == UNION {[1..w -> Pool \cup {NoNm}] : w \in 1..MaxW}
AggSuffixes == {<<"s","u","m">>, <<"m","a","x">>}
Init == \/ (Suite = "accessors" /\ \E names \in NameLists :
              c = [suite |-> "accessors", names |-> names, cmap |-> ColumnMap(names),
                   first |-> [i \in 1..Len(names) |-> IF names[i] = NoNm THEN 0 ELSE StringIndex(names, names[i])]])
        \/ (Suite = "sanitize" /\ \E n \in Pool : c = [suite |-> "sanitize", names |-> <<n>>, cmap |-> <<Sanitize(n)>>, first |-> <<1>>])
        \/ (Suite = "agg" /\ \E k \in Pool \cup {NoNm}, a \in Pool \cup {NoNm}, b \in Pool \cup {NoNm}, sa \in AggSuffixes, sb \in AggSuffixes :
              /\ ~(sa = <<"m","a","x">> /\ sb = <<"s","u","m">>)       \* built-ins are emitted in a fixed order (sum before max)
              /\ c = [suite |-> "agg", names |-> <<k, a, b>>, cmap |-> AggNames(<<k>>, <<<<a, sa>>, <<b, sb>>>>),
                   first |-> <<1>>, sfx |-> <<sa, sb>>])
        \/ (Suite = "agg2" /\ \E nk \in 1..2 : \E ks \in [1..nk -> {<<"a">>, <<"a", "2">>, NoNm}] :
              \E c1 \in {<<"a">>, <<"v">>}, c2 \in {<<"a">>, <<"v">>}, ap \in {<<"a","_","s","u","m","2">>, <<"v","_","s","u","m","2">>, <<"a","2">>, <<"z","z">>, <<"k","e","y">>} :
              c = [suite |-> "agg2", names |-> ks \o <<c1, c2, ap>>, nkeys |-> nk,
                   cmap |-> UniqAll([i \in 1..nk |-> IF ks[i] = NoNm THEN KeyWord ELSE ks[i]]
                                    \o <<AggBase(c1, <<"s","u","m">>), AggBase(c2, <<"s","u","m">>), ap>>, 1, {}, <<>>),
                   first |-> <<1>>, sfx |-> <<>>])
Next == UNCHANGED c
Emit == PrintT(<<"CASE", ToJson(c)>>)
Laws == c.suite = "accessors" => AccessorLaws(c.names)
AggDistinct == c.suite \in {"agg", "agg2"} => \A i, j \in 1..Len(c.cmap) : i # j => c.cmap[i] # c.cmap[j]
=============================================================================
