SPECIFICATION Spec
CONSTANTS
  MaxItems = 3
  ADevs = {}
INVARIANT Atomic
INVARIANT Truthful
INVARIANT Succeeds
CHECK_DEADLOCK FALSE
