--------------------------- MODULE Gen_Group ---------------------------
(* Case generator for C12 / C13: every key table x value column in scope with the groups,
   every built-in aggregate (exact rationals), the values apply() must receive, and the
   group index of every row (window).                                                    *)
EXTENDS SerifGroup, TLC, Json
CONSTANTS MaxRows, NKeys
KeyDom == {NoneV, 1, 2}
ValDom == {NoneV, 0, 1, 3}
KeyTuples == [1..NKeys -> KeyDom]
VARIABLE c
Init == \E n \in 0..MaxRows : \E K \in [1..n -> KeyTuples], V \in [1..n -> ValDom] :
          LET P == Partition(K)
              V2 == [i \in 1..n |-> V[n + 1 - i]]          \* a second aggregated column (the first one reversed)
          IN
          c = [K |-> K, V |-> V, V2 |-> V2, keys |-> GroupKeysP(P), rows |-> [g \in 1..Len(P) |-> P[g].rows],
               sum2 |-> AggregateP("sum", P, V2), count2 |-> AggregateP("count", P, V2),
               min2 |-> AggregateP("min", P, V2), max2 |-> AggregateP("max", P, V2),
               mean2 |-> AggregateP("mean", P, V2), var2 |-> AggregateP("var", P, V2),
               sum |-> AggregateP("sum", P, V), count |-> AggregateP("count", P, V),
               min |-> AggregateP("min", P, V), max |-> AggregateP("max", P, V),
               mean |-> AggregateP("mean", P, V), var |-> AggregateP("var", P, V),
               calls |-> ApplyCallsP(P, V),
               gidx |-> [i \in 1..n |-> GroupIndexOfP(P, K[i])]]
Next == UNCHANGED c
Emit == PrintT(<<"CASE", ToJson(c)>>)
=============================================================================
