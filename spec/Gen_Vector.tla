--------------------------- MODULE Gen_Vector ---------------------------
(* Case generator for the vector-level properties.  `Suite` selects the family:
     "slice"  every slice(s, e, st) on every length            -> selected positions   (C07)
     "mask"   every boolean mask of the right / wrong length   -> positions or error     (C07)
     "int"    every integer index                              -> position or error      (C07)
     "elem"   operand form x lengths x None placements         -> error / None / operand pairs (C05, C06)
     "na"     every vector over {None,0,1,2}                   -> isna, dropna, fillna    (C06)
     "assign" key form x value form on a vector of length n    -> error or final contents (C08)
     "atype"  (column dtype, incoming value tags)              -> keep / promote / reject (C08, C03) *)
EXTENDS SerifVector, TLC, Json
CONSTANTS Suite, MaxN, Bound
VARIABLE c

Comp == {NoneI} \cup ((0 - Bound)..Bound)
Steps == {NoneI} \cup {k \in (0 - 3)..3 : k # 0}
Cells == {NoneV, 0, 1, 2}
Orig(n) == [i \in 1..n |-> 10 + i]               \* distinguishable existing contents

ISlice == \E n \in 0..MaxN, s \in Comp, e \in Comp, st \in Steps :
            c = [suite |-> "slice", n |-> n, s |-> s, e |-> e, st |-> st, idx |-> SliceIdx(n, s, e, st)]
IMask == \E n \in 0..MaxN, k \in 0..(MaxN + 1) : \E m \in [1..k -> BOOLEAN] :
            c = [suite |-> "mask", n |-> n, mask |-> m, ok |-> MaskOk(n, m), idx |-> IF MaskOk(n, m) THEN MaskIdx(m) ELSE <<>>]
IInt == \E n \in 0..MaxN, i \in (0 - Bound)..Bound : c = [suite |-> "int", n |-> n, i |-> i, pos |-> IntIdx(n, i)]
IElem == \E mode \in Modes, la \in 0..3, lb \in 0..3 : \E na \in SUBSET (1..la), nb \in SUBSET (1..lb) :
            /\ (mode = "vs" => lb = 1 /\ nb = {}) /\ (mode = "sv" => la = 1 /\ na = {})
            /\ c = [suite |-> "elem", mode |-> mode, la |-> la, lb |-> lb, na |-> na, nb |-> nb,
                    ok |-> ElementwiseOk(mode, la, lb),
                    res |-> IF ElementwiseOk(mode, la, lb) THEN Elementwise(mode, la, lb, na, nb) ELSE <<>>]
INa == \E n \in 0..MaxN : \E v \in [1..n -> Cells] :
            c = [suite |-> "na", vals |-> v, isna |-> IsNa(v), dropna |-> DropNa(v), fill |-> FillNa(v, 7)]

IntKeys == {<<"int", i>> : i \in (0 - 4)..4}
SliceKeys == {<<"slice", s, e, st>> : s \in {NoneI} \cup ((0 - 4)..4), e \in {NoneI} \cup ((0 - 4)..4), st \in {NoneI, 1, 2, 0 - 1, 0 - 2}}
MaskKeys(n) == UNION {{<<"mask", m>> : m \in [1..k -> BOOLEAN]} : k \in {n, n + 1} \cup (IF n > 0 THEN {n - 1} ELSE {})}
ListKeys == UNION {{<<"list", l>> : l \in [1..k -> (0 - 4)..4]} : k \in 0..2}
ValuesFor(pos) == LET m == IF IsErr(pos) THEN 1 ELSE Len(pos) IN
                  {<<"scalar", 7>>, <<"seq", [k \in 1..m |-> 20 + k]>>, <<"seq", [k \in 1..(m + 1) |-> 20 + k]>>}
                  \cup (IF m > 0 THEN {<<"seq", [k \in 1..(m - 1) |-> 20 + k]>>} ELSE {})
AssignCase(n, key) == LET pos == KeyPositions(n, key) IN
    \E val \in ValuesFor(pos) :
       c = [suite |-> "assign", n |-> n, key |-> key, value |-> val, ok |-> AssignShapeOk(pos, val),
            contents |-> IF AssignShapeOk(pos, val) THEN AssignContents(Orig(n), pos, val) ELSE Orig(n)]
IAssign == \E n \in 0..3 : \/ \E key \in IntKeys : AssignCase(n, key)
                           \/ \E key \in SliceKeys : AssignCase(n, key)
                           \/ \E key \in MaskKeys(n) : AssignCase(n, key)
                           \/ \E key \in ListKeys : AssignCase(n, key)

ColKinds == {"bool", "int", "float", "complex", "str", "date", "datetime", "object"}
InTags == {"none", "bool", "int", "float", "complex", "str", "date", "datetime"}
IAType == \E k \in ColKinds, nl \in BOOLEAN, m \in 1..2 : \E ts \in [1..m -> InTags] :
            LET r == PromoteAll(DType(k, nl), ts, 1) IN
            c = [suite |-> "atype", kind |-> k, nullable |-> nl, tags |-> ts,
                 outcome |-> AssignTypeOutcome(DType(k, nl), ts), rkind |-> r.kind, rnullable |-> r.nullable]

Init == \/ (Suite = "slice" /\ ISlice)
        \/ (Suite = "mask" /\ IMask)
        \/ (Suite = "int" /\ IInt)
        \/ (Suite = "elem" /\ IElem)
        \/ (Suite = "na" /\ INa)
        \/ (Suite = "assign" /\ IAssign)
        \/ (Suite = "atype" /\ IAType)
Next == UNCHANGED c
Emit == PrintT(<<"CASE", ToJson(c)>>)
=============================================================================
