SPECIFICATION Spec
CONSTANTS
  NObj = 1
  NTab = 1
  NSid = 3
  Devs = {}
  Acts = {"NewVec", "Write", "Promote", "Observe"}
  Lens = {1, 2}
  Vals = {0, 1}
  NameSet = {"-"}
  MaxDepth = 6
  MaxCols = 1
  Emit = FALSE
  ObsV = {"sort", "fp", "repr", "cmp"}
  ObsT = {}
VIEW View
CONSTRAINT Bound
INVARIANT InvRegistryExact
INVARIANT InvNoSpuriousRefusal
INVARIANT InvOwnership
INVARIANT InvRect
INVARIANT InvSharingJustified
INVARIANT InvFpCoherent
INVARIANT InvDtypeTruthful
INVARIANT InvSane
INVARIANT InvCmap
INVARIANT InvRefusalJustified
INVARIANT InvFpReadCurrent
INVARIANT InvLookupCurrent
ACTION_CONSTRAINT StepProps
CHECK_DEADLOCK FALSE
