SPECIFICATION Spec
CONSTANTS
  Devs = {"LeadingNoneObject"}
  UseTags = {"none","bool","int","float","str","date","datetime"}
INVARIANT ReportIsLub
CHECK_DEADLOCK FALSE
