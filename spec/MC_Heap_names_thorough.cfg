SPECIFICATION Spec
CONSTANTS
  NObj = 5
  NTab = 1
  NSid = 7
  Devs = {}
  Acts = {"NewVec", "NewTable", "ColView", "Rename", "RenameColumn", "Lookup", "SetAttr", "WriteByName", "Dir"}
  Lens = {1}
  Vals = {0, 1}
  NameSet = {"-", "a", "b", "none"}
  MaxDepth = 8
  MaxCols = 2
  Emit = FALSE
  ObsV = {}
  ObsT = {}
VIEW View
CONSTRAINT Bound
INVARIANT InvRegistryExact
INVARIANT InvNoSpuriousRefusal
INVARIANT InvOwnership
INVARIANT InvRect
INVARIANT InvSharingJustified
INVARIANT InvFpCoherent
INVARIANT InvDtypeTruthful
INVARIANT InvSane
INVARIANT InvCmap
INVARIANT InvRefusalJustified
INVARIANT InvFpReadCurrent
INVARIANT InvLookupCurrent
ACTION_CONSTRAINT StepProps
CHECK_DEADLOCK FALSE
