INIT Init
NEXT Next
CONSTANTS
  JoinDevs = {}
  MaxRows = 2
  NKeys = 2
INVARIANT Laws
CHECK_DEADLOCK FALSE
