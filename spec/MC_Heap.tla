--------------------------- MODULE MC_Heap ---------------------------
(* Model-checking / case-generation driver for SerifHeap.  `Acts` selects the facet
   (which public calls are enabled); `last` is the call just made (hidden by VIEW together
   with `path`, the BFS path to the current state, used to emit replayable cases).        *)
EXTENDS SerifHeap, Json

CONSTANTS Acts, Lens, Vals, NameSet, MaxDepth, MaxCols, Emit, ObsV, ObsT

VARIABLES st, last, path
vars == <<st, last, path>>
View == st

NoAct == [a |-> "Init", x |-> 0, y |-> 0, z |-> 0, w |-> 0, vs |-> <<>>, nm |-> NoName, res |-> "Ok", lv |-> {}]
Act(a, x, y, z, w, vs, nm, res) == [a |-> a, x |-> x, y |-> y, z |-> z, w |-> w, vs |-> vs, nm |-> nm, res |-> res, lv |-> {}]

Init == st = InitState /\ last = NoAct /\ path = <<>>

Do(r, a) == /\ st' = r.st
            /\ last' = [a EXCEPT !.res = r.res, !.lv = r.st.live]
            /\ path' = Append(path, last')

ValSeqs == UNION {[1..n -> Vals] : n \in Lens}
S == st
On(name) == name \in Acts

(* identities: one allocation may recycle a stale identity when a deviation is enabled *)
One == IF Devs = {} THEN (IF FreeSids(S) = {} THEN {} ELSE {SetMin(FreeSids(S))}) ELSE AllocOne(S)
Seqs(k) == IF Cardinality(FreeSids(S)) < k THEN {} ELSE {LowestK(FreeSids(S), k)}
ObjSeqs(k) == IF Cardinality(DeadObjs(S)) < k THEN {} ELSE {LowestK(DeadObjs(S), k)}
SrcLists == UNION {[1..n -> LiveVec(S)] : n \in 1..MaxCols}

ANewVec == On("NewVec") /\ DeadObjs(S) # {} /\ \E vals \in ValSeqs, ft \in BOOLEAN, s \in One :
             (ft => On("ShareVec") /\ Len(vals) > 0) /\ Do(NewVec(S, vals, ft, s), Act("NewVec", 0, s, IF ft THEN 1 ELSE 0, 0, vals, NoName, ""))
AShareVec == On("ShareVec") /\ DeadObjs(S) # {} /\ \E s \in S.usertup :
             Do(ShareVec(S, s), Act("ShareVec", 0, s, 0, 0, <<>>, NoName, ""))
ADropTuple == On("ShareVec") /\ \E s \in S.usertup : Do(DropTuple(S, s), Act("DropTuple", 0, s, 0, 0, <<>>, NoName, ""))
ACopy == On("Copy") /\ DeadObjs(S) # {} /\ \E o \in LiveVec(S), s \in One :
             Do(CopyVec(S, o, s), Act("Copy", o, s, 0, 0, <<>>, NoName, ""))
ARawCopy == On("RawCopy") /\ DeadObjs(S) # {} /\ \E o \in LiveVec(S) :
             Do(RawCopy(S, o), Act("RawCopy", o, 0, 0, 0, <<>>, NoName, ""))
ADrop == On("Drop") /\ \E o \in LiveVec(S) : S.held[o] /\ Do(Drop(S, o), Act("Drop", o, 0, 0, 0, <<>>, NoName, ""))
AWrite == On("Write") /\ \E o \in LiveVec(S) : \E i \in 1..Len(Contents(S, o)), x \in Vals \cup (IF On("Promote") THEN {NoneV, FloatV} ELSE {}), s \in One :
             Do(WriteVec(S, o, i, x, s), Act("Write", o, s, i, x, <<>>, NoName, ""))
AWriteNone == On("WriteNone") /\ \E o \in LiveVec(S) : \E s \in One :
             Do(WriteNone(S, o, s), Act("WriteNone", o, s, 0, 0, <<>>, NoName, ""))
AReadFpV == On("ReadFp") /\ \E o \in LiveVec(S) : Do(ReadFpV(S, o), Act("ReadFpV", o, 0, 0, 0, FpResultV(S, o), NoName, ""))
ANewTable == On("NewTable") /\ DeadTabs(S) # {} /\ \E srcs \in SrcLists :
             \E sids \in Seqs(Len(srcs) + 1), objs \in ObjSeqs(Len(srcs)) :
             Do(NewTable(S, srcs, sids, objs), Act("NewTable", 0, 0, 0, 0, srcs, NoName, ""))
ASetAttr == On("SetAttr") /\ DeadObjs(S) # {} /\ \E t \in LiveTab(S), d \in LiveVec(S) : \E i \in 1..Len(S.cols[t]) :
             \E sids \in Seqs(2), objs \in ObjSeqs(1) :
             Do(SetAttr(S, t, i, d, sids[1], sids[2], objs[1]), Act("SetAttr", t, i, d, 0, <<>>, NoName, ""))
AColView == On("ColView") /\ \E t \in LiveTab(S) : \E i \in 1..Len(S.cols[t]) :
             ~S.held[S.cols[t][i]] /\ Do(ColView(S, t, i), Act("ColView", t, i, 0, 0, <<>>, NoName, ""))
ADropTable == On("DropTable") /\ \E t \in LiveTab(S) : Do(DropTable(S, t), Act("DropTable", t, 0, 0, 0, <<>>, NoName, ""))
AReadFpT == On("ReadFpT") /\ \E t \in LiveTab(S) : Do(ReadFpT(S, t), Act("ReadFpT", t, 0, 0, 0, <<>>, NoName, ""))
ARename == On("Rename") /\ \E o \in LiveVec(S), nm \in NameSet : nm # S.name[o] /\ Do(Rename(S, o, nm), Act("Rename", o, 0, 0, 0, <<>>, nm, ""))
(* rename_column(old, new): the first column carrying `old`; old and new may both be None (an unnamed column gets a name, a
   named one loses it) *)
ARenameColumn == On("RenameColumn") /\ \E t \in LiveTab(S), nm \in NameSet : \E i \in 1..Len(S.cols[t]) :
             /\ S.name[S.cols[t][i]] # nm
             /\ \A j \in 1..(i - 1) : S.name[S.cols[t][j]] # S.name[S.cols[t][i]]
             /\ Do(RenameColumn(S, t, i, nm), Act("RenameColumn", t, i, 0, 0, <<>>, nm, ""))
ALookup == On("Lookup") /\ \E t \in LiveTab(S), how \in {"getattr", "row"} :
             \E acc \in RangeOf(Accessors(NamesOf(S, t))) :      \* only ADVERTISED accessors are constrained (C17)
             Do(Lookup(S, t, acc, how), Act("Lookup", t, 0, 0, 0, <<>>, acc \o "|" \o how, ""))

AWriteByName == On("WriteByName") /\ \E t \in LiveTab(S) : \E i \in 1..Len(S.cols[t]) :
             \E r \in 1..Len(Contents(S, S.cols[t][i])), x \in Vals, s \in One :
             Do(WriteVec(S, S.cols[t][i], r, x, s), Act("Write", S.cols[t][i], s, r, x, <<>>, "byname", ""))
AConcatEmpty == On("ConcatEmpty") /\ DeadObjs(S) # {} /\ \E o \in LiveVec(S) : Len(Contents(S, o)) > 0 /\ \E s \in One :
             Do(ConcatEmpty(S, o, s), Act("ConcatEmpty", o, s, 0, 0, <<>>, NoName, ""))
AWriteRow == On("WriteRow") /\ \E t \in LiveTab(S) : S.tlen[t] > 0 /\ \E r \in 1..S.tlen[t] :
             \E xs \in [1..Len(S.cols[t]) -> Vals], sids \in Seqs(Len(S.cols[t])) :
             Do(WriteRow(S, t, r, xs, sids), Act("WriteRow", t, r, 0, 0, xs, NoName, ""))
AObserveV == On("Observe") /\ \E o \in LiveVec(S), f \in ObsV : Do(Observe(S, o, f), Act("Observe", o, 0, 0, 0, <<>>, f, ""))
AObserveT == On("Observe") /\ \E t \in LiveTab(S), g \in ObsT : Do(Observe(S, t, g), Act("Observe", t, 0, 0, 0, <<>>, g, ""))
ADir == On("Dir") /\ \E t \in LiveTab(S) : Do(Dir(S, t), Act("Dir", t, 0, 0, 0, <<>>, NoName, ""))

Next == ARawCopy \/ AWriteNone \/ AWriteByName \/ ADir \/ AConcatEmpty \/ AWriteRow \/ AObserveV \/ AObserveT \/ ANewVec \/ AShareVec \/ ADropTuple \/ ACopy \/ ADrop \/ AWrite \/ AReadFpV \/ ANewTable
        \/ ASetAttr \/ AColView \/ ADropTable \/ AReadFpT \/ ARename \/ ARenameColumn \/ ALookup
Spec == Init /\ [][Next]_vars
Bound == Len(path) < MaxDepth

(* ---------------- invariants on the state ---------------- *)
InvRegistryExact == RegistryExact(st)
InvNoSpuriousRefusal == NoSpuriousRefusal(st)
InvOwnership == OwnershipDisjoint(st)
InvRect == Rect(st)
InvSharingJustified == SharingJustified(st)
InvFpCoherent == FpCoherent(st)
InvDtypeTruthful == DtypeTruthful(st)
InvSane == Sane(st)
InvCmap == CmapFreshOrFlagged(st)
(* a refusal was justified: the target really shared its storage (C15, on the call itself) *)
InvRefusalJustified == last.res = "Refused" =>
    IF last.a = "WriteRow" THEN \E o \in ColumnsOf(st, last.x) : Cardinality(Sharers(st, o)) > 1
    ELSE Cardinality(Sharers(st, last.x)) > 1
(* a fingerprint read returns the hash of the CURRENT contents, memo or not (C16) *)
InvFpReadCurrent == /\ last.a = "ReadFpV" => last.vs = Contents(st, last.x)
                    /\ last.a = "ReadFpT" => FpResultT(st, last.x) = TableContents(st, last.x)
(* every lookup resolves against the current names (C17) *)
InvLookupCurrent == last.a = "Lookup" =>
    \E t \in LiveTab(st) : t = last.x /\
      \A how \in {"getattr", "row"}, acc \in RangeOf(Accessors(NamesOf(st, t))) :
         Lookup(st, t, acc, how).res = "Col" \o ToString(ResolveIn(NamesOf(st, t), acc))

(* ---------------- action properties ---------------- *)
Entity(Sx, x) == IF x \in Tab THEN {x} \cup ColumnsOf(Sx, x)
                 ELSE IF x \in Sx.uown THEN {x}
                 ELSE IF IsColumn(Sx, x) THEN {TableOf(Sx, x)} \cup ColumnsOf(Sx, TableOf(Sx, x)) ELSE {x}
ViewOf(Sx, x) == IF x \in Tab THEN TabView(Sx, x) ELSE VecView(Sx, x)
(* C01: a write changes only the written entity; every other surviving object keeps its view *)
WritesLocal == [][ last'.a \in {"Write", "SetAttr"} =>
                    LET tgt == IF last'.a = "Write" THEN Entity(st, last'.x) ELSE Entity(st, last'.x) IN
                    \A x \in (st.live \cap st'.live) \ tgt : ViewOf(st', x) = ViewOf(st, x) ]_vars
(* read-only / constructing calls never change an existing object's view *)
PureOps == [][ last'.a \in {"Observe", "WriteNone", "RawCopy", "NewVec", "ShareVec", "Copy", "ConcatEmpty", "ReadFpV", "ReadFpT", "NewTable", "ColView", "Lookup", "Drop", "DropTuple", "DropTable"} =>
                    \A x \in st.live \cap st'.live : ViewOf(st', x) = ViewOf(st, x) ]_vars
(* a refused or failed call changes nothing at all (C01, C08) *)
FailedChangesNothing == [][ last'.res \in {"Refused", "Err"} => st' = st ]_vars
(* a successful write to different content changes what fingerprint() returns (C16) *)
WriteChangesFp == [][ (last'.a = "Write" /\ last'.res = "Ok" /\ Contents(st', last'.x) # Contents(st, last'.x)) =>
                        FpResultV(st', last'.x) # FpResultV(st, last'.x) ]_vars

(* the same four action properties as ONE action constraint with named assertions: TLC then
   checks them on every transition without building the liveness graph (much faster);
   the engine reports the name carried by the failing Assert as the violated property.   *)
WritesLocalStep ==
    last'.a \in {"Write", "SetAttr", "WriteRow"} =>
        \A x \in (st.live \cap st'.live) \ Entity(st, last'.x) : ViewOf(st', x) = ViewOf(st, x)
PureOpsStep ==
    last'.a \in {"Observe", "WriteNone", "RawCopy", "NewVec", "ShareVec", "Copy", "ConcatEmpty", "ReadFpV", "ReadFpT", "NewTable", "ColView", "Lookup", "Dir", "Drop", "DropTuple", "DropTable"} =>
        \A x \in st.live \cap st'.live : ViewOf(st', x) = ViewOf(st, x)
FailedStep == last'.res \in {"Refused", "Err"} => st' = st
WriteChangesFpStep ==
    (last'.a = "Write" /\ last'.res = "Ok" /\ Contents(st', last'.x) # Contents(st, last'.x)) =>
        FpResultV(st', last'.x) # FpResultV(st, last'.x)
StepProps == /\ Assert(WritesLocalStep, "WritesLocal")
             /\ Assert(PureOpsStep, "PureOps")
             /\ Assert(FailedStep, "FailedChangesNothing")
             /\ Assert(WriteChangesFpStep, "WriteChangesFp")

(* ---------------- emission of replayable transitions ---------------- *)
Proj(Sx) == [live |-> Sx.live, held |-> Sx.held, store |-> Sx.store, heap |-> Sx.heap, usertup |-> Sx.usertup,
             kind |-> Sx.kind, nullable |-> Sx.nullable, name |-> Sx.name,
             cols |-> [t \in Tab |-> Sx.cols[t]], tsid |-> [t \in Tab |-> Sx.tsid[t]], tlen |-> [t \in Tab |-> Sx.tlen[t]],
             reg |-> Sx.reg, fpv |-> [o \in Obj |-> Sx.fpv[o] # NoMemo]]
EmitT == Emit => PrintT(<<"CASE", ToJson([path |-> path', post |-> Proj(st')])>>)
=============================================================================
