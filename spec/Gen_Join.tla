--------------------------- MODULE Gen_Join ---------------------------
(* Case generator for C09-C11: every pair of key tables in scope x join kind x expect,
   with the outcome the specification demands.  One JSON line per TLC state.          *)
EXTENDS SerifJoin, TLC, Json
CONSTANTS MaxRows, NKeys, Kinds, Expects
KeyDom == {NoneV, 1, 2}
KeyTuples == [1..NKeys -> KeyDom]
KeyTables == SeqsUpTo(KeyTuples, MaxRows)
VARIABLE c
Init == \E LK \in KeyTables, RK \in KeyTables, k \in Kinds, e \in Expects :
          LET o == Outcome(k, e, LK, RK) IN
          c = [lk |-> LK, rk |-> RK, kind |-> k, expect |-> e, ok |-> o.ok, pairs |-> o.pairs]
Next == UNCHANGED c
Emit == PrintT(<<"CASE", ToJson(c)>>)
=============================================================================
