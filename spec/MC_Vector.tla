--------------------------- MODULE MC_Vector ---------------------------
(* Laws of SerifVector over its whole bounded input space (stateless: the "state" is the
   input, chosen in Init; invariants are the laws).                                     *)
EXTENDS SerifVector, TLC
CONSTANTS MaxN, Bound
VARIABLE c
Comp == {NoneI} \cup ((0 - Bound)..Bound)
Steps == {NoneI} \cup {k \in (0 - 3)..3 : k # 0}
Cells == {NoneV, 0, 1, 2}

Init == \/ \E n \in 0..MaxN, s \in Comp, e \in Comp, st \in Steps : c = [k |-> "slice", n |-> n, s |-> s, e |-> e, st |-> st]
        \/ \E n \in 0..MaxN : \E vals \in [1..n -> Cells], x \in Cells \ {NoneV} : c = [k |-> "na", vals |-> vals, x |-> x]
        \/ \E mode \in Modes, la \in 0..3, lb \in 0..3 : \E na \in SUBSET (1..la), nb \in SUBSET (1..lb) :
             /\ (mode = "vs" => lb = 1 /\ nb = {}) /\ (mode = "sv" => la = 1 /\ na = {})       \* a scalar operand
             /\ c = [k |-> "elem", mode |-> mode, la |-> la, lb |-> lb, na |-> na, nb |-> nb]
Next == UNCHANGED c

SliceLaws == c.k = "slice" =>
    LET idx == SliceIdx(c.n, c.s, c.e, c.st)  k == SStep(c.st) IN
    /\ \A i \in 1..Len(idx) : idx[i] >= 0 /\ idx[i] < c.n                         \* within range
    /\ \A i \in 1..(Len(idx) - 1) : idx[i + 1] - idx[i] = k                        \* strictly monotone by the step
    /\ RangeOf(idx) = SliceSet(c.n, c.s, c.e, c.st)                                \* = the filter definition
NaLaws == c.k = "na" =>
    /\ DropNa(c.vals) = Take(c.vals, MaskIdx([i \in 1..Len(c.vals) |-> ~IsNa(c.vals)[i]]))   \* dropna = select(not isna)
    /\ \A i \in 1..Len(c.vals) : (FillNa(c.vals, c.x)[i] # c.vals[i]) <=> IsNa(c.vals)[i]  \* fillna changes exactly isna
    /\ \A i \in 1..Len(DropNa(c.vals)) : ~IsNone(DropNa(c.vals)[i])
    /\ \A i \in 1..Len(c.vals) : ~IsNone(FillNa(c.vals, c.x)[i])
    /\ Len(DropNa(c.vals)) + Cardinality({i \in 1..Len(c.vals) : IsNa(c.vals)[i]}) = Len(c.vals)
ElemLaws == c.k = "elem" =>
    /\ ElementwiseOk(c.mode, c.la, c.lb) =>
         LET r == Elementwise(c.mode, c.la, c.lb, c.na, c.nb) IN
         /\ Len(r) = (IF c.mode = "sv" THEN c.lb ELSE c.la)                            \* shape preserved
         /\ \A i \in 1..Len(r) : r[i] = <<0, 0>> <=>                                    \* None exactly where an operand is None
               ((c.mode # "sv" /\ i \in c.na) \/ (c.mode # "vs" /\ i \in c.nb))
         /\ \A i \in 1..Len(r) : r[i] # <<0, 0>> => r[i][1] \in 1..c.la /\ r[i][2] \in 1..c.lb
         (* comparisons are FALSE exactly where arithmetic is None *)
         /\ \A i \in 1..Len(r) : CompareMask(c.mode, c.la, c.lb, c.na, c.nb)[i] = (r[i] # <<0, 0>>)
=============================================================================
