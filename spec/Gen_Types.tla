--------------------------- MODULE Gen_Types ---------------------------
(* Case generator (spec -> code): every tag sequence up to MaxLen with the dtype the
   design infers for it, and the full promotion / assignment-acceptance table.  One JSON
   line per TLC state; harness/bind_types.py replays each against serif.typing / Vector. *)
EXTENDS SerifTypes, TLC, Json

CONSTANTS UseTags, MaxLen
VARIABLE c

SeqCases == UNION {[1..n -> UseTags] : n \in 1..MaxLen}
TableCases == {<<k, n, t>> : k \in (UseTags \ {"none"}) \cup {"object"}, n \in BOOLEAN, t \in UseTags}

Init == \/ \E s \in SeqCases : c = [op |-> "infer", tags |-> s, kind |-> Infer(s).kind, nullable |-> Infer(s).nullable]
        \/ \E x \in TableCases :
             LET dt == DType(x[1], x[2]) IN
             c = [op |-> "promote", kind |-> x[1], nullable |-> x[2], tag |-> x[3],
                  rkind |-> Promote(dt, x[3]).kind, rnullable |-> Promote(dt, x[3]).nullable,
                  assign |-> AssignOutcome(dt, x[3])]
Next == UNCHANGED c
Emit == PrintT(<<"CASE", ToJson(c)>>)
(* laws re-checked on every emitted case *)
InferIsLub == c.op = "infer" => DType(c.kind, c.nullable) = Lub({c.tags[i] : i \in 1..Len(c.tags)})
=============================================================================
