--------------------------- MODULE SerifNaming ---------------------------
(* Column names and accessor names (src/serif/naming.py, Table._build_column_map,
   Table.__getattr__, aggregate/window naming).  Written from C17 / C18.

   A name is a sequence of one-character strings, ALREADY lower-cased (str.lower() is the
   one step the spec leaves to Python); NoNm (<<"\0">>) stands for an unnamed column.
   Reserved is supplied by the binding from dir(Vector) / dir(Table), as the library does. *)
EXTENDS Integers, Sequences, FiniteSets, SequencesExt, TLC

CONSTANT Reserved            \* set of reserved accessor names (sequences of characters)

NoNm == <<"NONE">>
Letters == {"a","b","c","d","e","f","g","h","i","j","k","l","m","n","o","p","q","r","s","t","u","v","w","x","y","z"}
Digits == {"0","1","2","3","4","5","6","7","8","9"}
Valid == Letters \cup Digits \cup {"_"}
DigitVal(d) == CASE d = "0" -> 0 [] d = "1" -> 1 [] d = "2" -> 2 [] d = "3" -> 3 [] d = "4" -> 4
                 [] d = "5" -> 5 [] d = "6" -> 6 [] d = "7" -> 7 [] d = "8" -> 8 [] d = "9" -> 9
DigitChar(n) == CASE n = 0 -> "0" [] n = 1 -> "1" [] n = 2 -> "2" [] n = 3 -> "3" [] n = 4 -> "4"
                  [] n = 5 -> "5" [] n = 6 -> "6" [] n = 7 -> "7" [] n = 8 -> "8" [] n = 9 -> "9"
NumStr(n) == IF n < 10 THEN <<DigitChar(n)>> ELSE <<DigitChar(n \div 10), DigitChar(n % 10)>>
Idx(s) == [i \in 1..Len(s) |-> i]

(* runs of characters outside [a-z0-9_] become ONE underscore *)
Collapse(s) ==
    LET keep == SelectSeq(Idx(s), LAMBDA i : s[i] \in Valid \/ i = 1 \/ s[i - 1] \in Valid)
    IN [k \in 1..Len(keep) |-> IF s[keep[k]] \in Valid THEN s[keep[k]] ELSE "_"]
(* outer underscores stripped *)
Strip(s) ==
    LET nz == {i \in 1..Len(s) : s[i] # "_"} IN
    IF nz = {} THEN <<>>
    ELSE SubSeq(s, CHOOSE i \in nz : \A j \in nz : i <= j, CHOOSE i \in nz : \A j \in nz : i >= j)
TrailingDigits(s) == Cardinality({k \in 1..Len(s) : \A j \in (Len(s) - k + 1)..Len(s) : s[j] \in Digits})
(* looks like a generated indexed accessor  base__N *)
LooksIndexed(s) == LET d == TrailingDigits(s)  n == Len(s) IN
    d >= 1 /\ n - d >= 3 /\ s[n - d] = "_" /\ s[n - d - 1] = "_"

(* _sanitize_user_name on a lower-cased name; <<>> = "no usable name" *)
Sanitize(name) ==
    LET a == Strip(Collapse(name)) IN
    IF a = <<>> THEN <<>>
    ELSE LET b == IF a[1] \in Digits THEN <<"c">> \o a ELSE a
             c == IF LooksIndexed(b) THEN b \o <<"_">> ELSE b
         IN IF c \in Reserved THEN c \o <<"_">> ELSE c

(* Table._build_column_map: first occurrence keeps the base, repeats get __idx, unnamed
   or unusable names get colN_  (idx is 0-based, as in the library)                        *)
SysName(i) == <<"c", "o", "l">> \o NumStr(i - 1) \o <<"_">>
RECURSIVE MapFrom(_, _, _, _)
MapFrom(names, i, seen, acc) ==
    IF i > Len(names) THEN acc
    ELSE LET base == IF names[i] = NoNm THEN <<>> ELSE Sanitize(names[i]) IN
         IF base = <<>> THEN MapFrom(names, i + 1, seen, Append(acc, SysName(i)))
         ELSE IF base \in seen
           THEN MapFrom(names, i + 1, seen,
                        Append(acc, base \o (IF base[Len(base)] = "_" THEN <<"_">> ELSE <<"_", "_">>) \o NumStr(i - 1)))
           ELSE MapFrom(names, i + 1, seen \cup {base}, Append(acc, base))
ColumnMap(names) == MapFrom(names, 1, {}, <<>>)

(* ---- Table.__getattr__ as a decision procedure (0 = AttributeError) ---- *)
SplitIndexed(attr) ==      \* rpartition('__') with an all-digit suffix: <<base, index>> or <<>>
    LET d == TrailingDigits(attr)  n == Len(attr) IN
    IF d >= 1 /\ n - d >= 2 /\ attr[n - d] = "_" /\ attr[n - d - 1] = "_"
      THEN <<SubSeq(attr, 1, n - d - 2), SubSeq(attr, n - d + 1, n)>> ELSE <<>>
RECURSIVE NumVal(_)
NumVal(ds) == IF ds = <<>> THEN 0 ELSE NumVal(SubSeq(ds, 1, Len(ds) - 1)) * 10 + DigitVal(ds[Len(ds)])
IsSysName(attr) == Len(attr) >= 5 /\ SubSeq(attr, 1, 3) = <<"c", "o", "l">> /\ attr[Len(attr)] = "_"
                   /\ \A j \in 4..(Len(attr) - 1) : attr[j] \in Digits
GetAttr(names, attr) ==
    LET sp == SplitIndexed(attr)  cm == ColumnMap(names) IN
    IF sp # <<>> /\ sp[1] # <<>> THEN
         LET k == NumVal(sp[2]) + 1 IN
         IF k > Len(names) THEN 0
         ELSE IF names[k] # NoNm /\ Sanitize(names[k]) = Sanitize(sp[1]) THEN k ELSE 0
    ELSE IF IsSysName(attr) THEN
         (LET k == NumVal(SubSeq(attr, 4, Len(attr) - 1)) + 1 IN IF k <= Len(names) THEN k ELSE 0)
    ELSE IF \E i \in 1..Len(cm) : cm[i] = attr THEN CHOOSE i \in 1..Len(cm) : cm[i] = attr
    ELSE 0

(* t["name"]: exact stored name first (first occurrence) *)
StringIndex(names, nm) == IF \E i \in 1..Len(names) : names[i] = nm
                            THEN CHOOSE i \in 1..Len(names) : names[i] = nm /\ \A j \in 1..(i - 1) : names[j] # nm
                            ELSE 0

(* ---- laws of C17 ---- *)
IsIdentifier(s) == s # <<>> /\ s[1] \notin Digits /\ \A i \in 1..Len(s) : s[i] \in Valid
AccessorLaws(names) ==
    LET cm == ColumnMap(names) IN
    /\ Len(cm) = Len(names)
    /\ \A i, j \in 1..Len(cm) : i # j => cm[i] # cm[j]                 \* pairwise distinct
    /\ \A i \in 1..Len(cm) : IsIdentifier(cm[i])                        \* valid identifiers
    /\ \A i \in 1..Len(cm) : cm[i] \notin Reserved                       \* never shadow the API
    /\ \A i \in 1..Len(cm) : GetAttr(names, cm[i]) = i                   \* each resolves to its own column

(* ---- C18: aggregate / window output names ---- *)
RECURSIVE Uniq(_, _, _)
Uniq(name, used, i) == IF name \o NumStr(i) \in used THEN Uniq(name, used, i + 1) ELSE name \o NumStr(i)
Uniquify(name, used) == IF name \notin used THEN name ELSE Uniq(name, used, 2)
KeyWord == <<"k", "e", "y">>
ColWord == <<"c", "o", "l">>
AggBase(colname, suffix) ==
    LET s == IF colname = NoNm THEN ColWord ELSE Sanitize(colname) IN
    (IF s = <<>> THEN ColWord ELSE s) \o <<"_">> \o suffix
(* raw = sequence of proposed names in output order; result = names made unique left to right *)
RECURSIVE UniqAll(_, _, _, _)
UniqAll(raw, i, used, acc) ==
    IF i > Len(raw) THEN acc
    ELSE LET u == Uniquify(raw[i], used) IN UniqAll(raw, i + 1, used \cup {u}, Append(acc, u))
AggNames(keyNames, aggs) ==       \* aggs: sequence of <<column name, suffix>>
    UniqAll([i \in 1..Len(keyNames) |-> IF keyNames[i] = NoNm THEN KeyWord ELSE keyNames[i]]
            \o [i \in 1..Len(aggs) |-> AggBase(aggs[i][1], aggs[i][2])], 1, {}, <<>>)

(* ---- C18: binary naming between table columns ---- *)
BinaryName(l, r) == IF r = NoNm \/ r = l THEN l ELSE NoNm
=============================================================================
