--------------------------- MODULE SerifBase ---------------------------
(* Conventions shared by the relational / vector modules.
   An abstract cell value is an integer; NoneV (-1) stands for Python's None.  Rows and
   positions are 1-based in the specs (the bindings translate to 0-based).              *)
EXTENDS Integers, Sequences, FiniteSets, SequencesExt

NoneV == 0 - 1
NoRow == 0
IsNone(x) == x = NoneV
Idx(S) == [i \in 1..Len(S) |-> i]
RangeOf(S) == {S[i] : i \in 1..Len(S)}
SeqsUpTo(D, n) == UNION {[1..k -> D] : k \in 0..n}
Column(T, c) == [i \in 1..Len(T) |-> T[i][c]]
=============================================================================
