SPECIFICATION Spec
CONSTANTS
  MaxRows = 3
  NKeys = 1
INVARIANT MachineIsDefinition
INVARIANT Laws
CHECK_DEADLOCK FALSE
