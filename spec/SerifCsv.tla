--------------------------- MODULE SerifCsv ---------------------------
(* read_csv (src/serif/csv.py) on a grid of records as the csv module delivers them.
   A record is a sequence of cell classes; what a non-blank cell's text converts to
   (int / float / stripped string) is decided by Python's int() and float(), as C19 says,
   so the spec only fixes shape, names, padding and which cells are None.               *)
EXTENDS SerifBase

Blankish == {"blank", "spaces"}
CellClasses == {"blank", "spaces", "int", "padint", "float", "text", "quoted", "numlike"}

ColName(i) == <<"col_", i - 1>>           \* header-less files: col_0, col_1, ...
(* result: [ncols, names (sequence of header cells or generated), nrows, cells[c][r] = class or "none"] *)
ReadGrid(records, hasHeader) ==
    IF records = <<>> THEN [ncols |-> 0, nrows |-> 0, cells |-> <<>>, generated |-> FALSE]
    ELSE
      LET width == Len(records[1])
          rows == IF hasHeader THEN Tail(records) ELSE records
      IN [ncols |-> width, nrows |-> Len(rows), generated |-> ~hasHeader,
          cells |-> [c \in 1..width |-> [r \in 1..Len(rows) |->
                        IF c > Len(rows[r]) THEN "none"                       \* short record: padded with None
                        ELSE IF rows[r][c] \in Blankish THEN "none" ELSE rows[r][c]]]]
=============================================================================
