--------------------------- MODULE MC_Types ---------------------------
(* Model-checking driver for SerifTypes: the product of the inference automaton with the
   set of tags consumed so far.  Its reachable state space is finite, so TLC's exhaustive
   run is an induction over ALL sequence lengths and ALL orders (C04).                   *)
EXTENDS SerifTypes, TLC

CONSTANT UseTags        \* subset of Tags explored by this configuration

VARIABLES st, seen
vars == <<st, seen>>

Init == st = Start /\ seen = {}
Feed(t) == st' = Step(st, t) /\ seen' = seen \cup {t}
Next == \E t \in UseTags : Feed(t)
Spec == Init /\ [][Next]_vars

(* C04 core: what the automaton reports depends only on the set of tags seen *)
ReportIsLub == seen # {} => Report(st) = Lub(seen)
(* consequences, stated directly on the step function in every reachable state *)
Commutes   == \A a, b \in UseTags : Step(Step(st, a), b) = Step(Step(st, b), a)
Idempotent == \A a \in UseTags : Step(Step(st, a), a) = Step(st, a)
Monotone   == \A a \in UseTags : DTypeLeq(Report(st), Report(Step(st, a))) \/ st.kind = "unset"
(* C03 on the design: the reported dtype is truthful for everything consumed *)
ReportTruthful == Truthful(Report(st), seen)
(* promote_with agrees with the declarative lattice for every set state *)
PromoteIsLub == st.kind # "unset" =>
                  \A a \in UseTags : Promote(Report(st), a) = Lub(seen \cup {a})
(* assignment acceptance is consistent with the lattice: keep => truthful stays, promote => Lub *)
AssignConsistent == st.kind # "unset" =>
    \A a \in UseTags :
       LET dt == Report(st)  o == AssignOutcome(dt, a) IN
         /\ o = "keep"    => Truthful(dt, {a})
         /\ o = "promote" => /\ Truthful(Promote(dt, a), seen \cup {a})
                             /\ Promote(dt, a).kind # "object" \/ dt.kind = "object"
         /\ o = "reject"  => Promote(dt, a).kind = "object"
=============================================================================
