SPECIFICATION Spec
CONSTANTS
  SortDevs = {"FlagNotFlipped"}
  MaxRows = 3
  NKeys = 1
INVARIANT MultiPassIsDefinition
CHECK_DEADLOCK FALSE
