SPECIFICATION Spec
CONSTANTS
  NObj = 4
  NTab = 1
  NSid = 6
  Devs = {"RaggedAccepted"}
  Acts = {"NewVec", "Copy", "Drop", "Write", "NewTable", "SetAttr", "ColView", "DropTable", "ReadFp", "ReadFpT"}
  Lens = {1, 2}
  Vals = {0, 1}
  NameSet = {"-"}
  MaxDepth = 4
  MaxCols = 2
  Emit = FALSE
  ObsV = {}
  ObsT = {}
VIEW View
CONSTRAINT Bound
INVARIANT InvRect
INVARIANT InvSharingJustified
CHECK_DEADLOCK FALSE
