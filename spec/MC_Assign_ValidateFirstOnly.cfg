SPECIFICATION Spec
CONSTANTS
  MaxItems = 3
  ADevs = {"ValidateFirstOnly"}
INVARIANT Atomic
INVARIANT Truthful
INVARIANT Succeeds
CHECK_DEADLOCK FALSE
