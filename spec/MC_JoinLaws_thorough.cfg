INIT Init
NEXT Next
CONSTANTS
  JoinDevs = {}
  MaxRows = 4
  NKeys = 1
INVARIANT Laws
CHECK_DEADLOCK FALSE
