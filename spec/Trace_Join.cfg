INIT Init
NEXT Next
CONSTANT JoinDevs = {}
CHECK_DEADLOCK FALSE
