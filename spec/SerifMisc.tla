--------------------------- MODULE SerifMisc ---------------------------
(* Growth of the specification beyond the listed properties: further public operations of
   Vector / Table written as definitional operators (cells are ints, NoneV = None).
     unique()   first occurrence of every distinct value, in order (None is a value)
     argsort()  the stable ascending permutation (0-based) of a None-free vector
     v @ w      dot product;  M @ v linear combination of columns;  M @ N column by column
     Vector.new(x, n)  n copies
     peek()     evenly spaced sample indices, null percentage, top-k by (-count, text)
     t.T        rows become columns (column-major in, column-major out); t.T.T = t
     pluck(k)   element k of every item (Python index: negative from the end), default where the
                item is None or has no such element
     isinstance(T)  per-element type test (None is NoneType; bool is an int)
     cast(T)    None stays None, nullable exactly when a None occurs, kind = the target
     t == x, t < x ...  one non-nullable boolean column per column                         *)
EXTENDS SerifBase, SerifSort

UniqueVals(vals) == LET first == SelectSeq(Idx(vals), LAMBDA i : \A j \in 1..(i - 1) : vals[j] # vals[i])
                    IN [k \in 1..Len(first) |-> vals[first[k]]]
ArgSort(vals) == LET K == [i \in 1..Len(vals) |-> <<vals[i]>>]
                     p == SortPerm(K, <<FALSE>>, TRUE) IN [k \in 1..Len(p) |-> p[k] - 1]
Dot(a, b) == FoldSeq(LAMBDA i, acc : acc + a[i] * b[i], 0, Idx(a))
(* M is column-major: M[c][r] *)
MatVec(M, v, nrows) == [r \in 1..nrows |-> FoldSeq(LAMBDA c, acc : acc + M[c][r] * v[c], 0, Idx(M))]
MatMat(M, N, nrows) == [c \in 1..Len(N) |-> MatVec(M, N[c], nrows)]
Repeat(x, n) == [i \in 1..n |-> x]

(* peek(sample = k): which rows are looked at *)
SampleIdx(nrows, k) ==
    IF k <= 0 THEN <<>>
    ELSE IF k >= nrows THEN [i \in 1..nrows |-> i - 1]
    ELSE LET step == IF nrows \div k < 1 THEN 1 ELSE nrows \div k
             all == [i \in 1..((nrows + step - 1) \div step) |-> (i - 1) * step]
         IN SubSeq(all, 1, IF Len(all) < k THEN Len(all) ELSE k)
NullCount(col, idx) == Cardinality({i \in 1..Len(idx) : IsNone(col[idx[i] + 1])})

Transpose(M, nrows) == [r \in 1..nrows |-> [cc \in 1..Len(M) |-> M[cc][r]]]
(* items: sequences of cells, or <<NoneV>> standing for a None item (marked by the flag seq) *)
PyIdx(n, k) == IF k >= 0 /\ k < n THEN k + 1 ELSE IF k < 0 /\ 0 - k <= n THEN n + k + 1 ELSE 0
Pluck(items, isnone, k, default) ==
    [i \in 1..Len(items) |-> IF isnone[i] \/ PyIdx(Len(items[i]), k) = 0 THEN default ELSE items[i][PyIdx(Len(items[i]), k)]]
(* tags: "int" "float" "str" "bool" "none"; Python: isinstance(True, int) *)
InstanceOf(tag, T) == tag \in T \/ (tag = "bool" /\ "int" \in T)
IsInstance(tags, T) == [i \in 1..Len(tags) |-> InstanceOf(tags[i], T)]
CastNullable(vals) == \E i \in 1..Len(vals) : IsNone(vals[i])
CastNonePos(vals) == {i \in 1..Len(vals) : IsNone(vals[i])}
(* table compared with a scalar: cells  ->  booleans, None compares False *)
TableCompare(M, x, op) == [cc \in 1..Len(M) |-> [r \in 1..Len(M[cc]) |->
    IF IsNone(M[cc][r]) THEN FALSE
    ELSE CASE op = "eq" -> M[cc][r] = x [] op = "ne" -> M[cc][r] # x [] op = "lt" -> M[cc][r] < x
           [] op = "le" -> M[cc][r] <= x [] op = "gt" -> M[cc][r] > x [] op = "ge" -> M[cc][r] >= x]]
=============================================================================
