SPECIFICATION Spec
CONSTANTS
  Devs = {}
  UseTags = {"none","bool","int","float","complex","str","bytes","date","datetime","list","dict","tuple","otherA","otherB"}
INVARIANT ReportIsLub
INVARIANT Commutes
INVARIANT Idempotent
INVARIANT Monotone
INVARIANT ReportTruthful
INVARIANT PromoteIsLub
INVARIANT AssignConsistent
CHECK_DEADLOCK FALSE
