--------------------------- MODULE Trace_Types ---------------------------
(* Trace validator (code -> spec).  Reads ndjson events recorded from the real library
   (env TRACE_FILE) and gives every event a total verdict: "ok" or the failing clause.
     infer   : tags, kind, nullable             reported dtype must be Lub(set of tags)
     promote : kind, nullable, tag, rkind, rnullable    promote_with = lattice step
     truth   : kind, nullable, tags             C03: dtype truthful for the element tags
     rule    : kind, nullable, tags             C04: result dtype = Lub of the element tags
     perm    : dtypes (list of [kind, nullable]) order independence: all equal          *)
EXTENDS SerifTypes, TLC, Json, IOUtils, Sequences

Trace == ndJsonDeserialize(IOEnv.TRACE_FILE)

TagSet(e) == {e.tags[i] : i \in 1..Len(e.tags)}
Verdict(e) ==
    CASE e.op = "infer" ->
           IF ~(TagSet(e) \subseteq Tags) THEN "unknown_tag"
           ELSE IF ~(e.kind \in Kinds) THEN "unknown_kind"
           ELSE IF DType(e.kind, e.nullable) = Lub(TagSet(e)) THEN "ok" ELSE "dtype_rule"
      [] e.op = "rule" ->
           IF TagSet(e) = {} THEN "ok"
           ELSE IF ~(TagSet(e) \subseteq Tags) \/ ~(e.kind \in Kinds) THEN "unknown_tag"
           ELSE IF DType(e.kind, e.nullable) = Lub(TagSet(e)) THEN "ok" ELSE "dtype_rule"
      [] e.op = "promote" ->
           IF Promote(DType(e.kind, e.nullable), e.tag) = DType(e.rkind, e.rnullable) THEN "ok" ELSE "promote_rule"
      [] e.op = "truth" ->
           IF ~(e.kind \in Kinds) THEN "unknown_kind"
           ELSE IF Truthful(DType(e.kind, e.nullable), TagSet(e)) THEN "ok" ELSE "dtype_truthful"
      [] e.op = "perm" ->
           IF \A i, j \in 1..Len(e.dtypes) : e.dtypes[i] = e.dtypes[j] THEN "ok" ELSE "order_dependent"
      [] OTHER -> "unknown_op"

Bad == {<<Trace[i].id, Verdict(Trace[i])>> : i \in {j \in 1..Len(Trace) : Verdict(Trace[j]) # "ok"}}

VARIABLE done
Init == done = FALSE
Next == done = FALSE /\ done' = TRUE
        /\ PrintT(<<"VERDICT", ToJson([n |-> Len(Trace), bad |-> Bad])>>)
=============================================================================
