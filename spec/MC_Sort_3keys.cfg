SPECIFICATION Spec
CONSTANTS
  SortDevs = {}
  MaxRows = 3
  NKeys = 3
INVARIANT MultiPassIsDefinition
INVARIANT Laws
CHECK_DEADLOCK FALSE
