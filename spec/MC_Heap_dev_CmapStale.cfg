SPECIFICATION Spec
CONSTANTS
  NObj = 4
  NTab = 1
  NSid = 6
  Devs = {"CmapStale"}
  Acts = {"NewVec", "NewTable", "ColView", "Rename", "RenameColumn", "Lookup", "SetAttr", "WriteByName", "Dir"}
  Lens = {1}
  Vals = {0, 1}
  NameSet = {"-", "a", "b"}
  MaxDepth = 5
  MaxCols = 2
  Emit = FALSE
  ObsV = {}
  ObsT = {}
VIEW View
CONSTRAINT Bound
INVARIANT InvLookupCurrent
CHECK_DEADLOCK FALSE
