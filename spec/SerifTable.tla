--------------------------- MODULE SerifTable ---------------------------
(* Table-level operators: column selection, table arithmetic, structural operations and
   table item assignment (C02, C05, C07, C08, C18).  Names are short strings, "-" unnamed. *)
EXTENDS SerifVector

NoNameT == "-"
(* t[("x","y")] : every requested stored name must exist; first occurrence wins *)
FirstIndex(names, nm) == IF \E i \in 1..Len(names) : names[i] = nm
                           THEN CHOOSE i \in 1..Len(names) : names[i] = nm /\ \A j \in 1..(i - 1) : names[j] # nm
                           ELSE 0
SelectOk(names, req) == \A k \in 1..Len(req) : FirstIndex(names, req[k]) # 0
SelectCols(names, req) == [k \in 1..Len(req) |-> FirstIndex(names, req[k])]

(* table arithmetic: column by column; widths must agree; naming rule of C18 *)
ArithOk(lw, rw) == lw = rw
ArithNameScalar(lnames) == lnames
ArithNameTable(l, r) == IF r = NoNameT \/ r = l THEN l ELSE NoNameT
ArithNames(lnames, rnames) == [i \in 1..Len(lnames) |-> ArithNameTable(lnames[i], rnames[i])]

(* structure (cells are column-major: cells[c][r]) *)
StackCols(cells, newcol) == Append(cells, newcol)
AppendRow(cells, row) == [c \in 1..Len(cells) |-> Append(cells[c], row[c])]
Transpose(cells, nrows) == [r \in 1..nrows |-> [c \in 1..Len(cells) |-> cells[c][r]]]

(* t.rename_columns(olds, news): pairs are applied left to right, each renaming the FIRST column that
   currently carries the old name (so a name introduced by an earlier pair can be renamed again);
   if any old name is not found, NOTHING is renamed (C08).                                          *)
RECURSIVE RenameFrom(_, _, _, _)
RenameFrom(names, olds, news, k) ==
    IF k > Len(olds) THEN names
    ELSE LET i == FirstIndex(names, olds[k]) IN
         IF i = 0 THEN <<"#missing#">>
         ELSE RenameFrom([names EXCEPT ![i] = news[k]], olds, news, k + 1)
RenameOk(names, olds, news) == Len(olds) = Len(news) /\ RenameFrom(names, olds, news, 1) # <<"#missing#">>
RenameColumns(names, olds, news) == IF RenameOk(names, olds, news) THEN RenameFrom(names, olds, news, 1) ELSE names

(* table item assignment t[row, cols] = values: one vector assignment per addressed column;
   ALL columns are validated before any is written (atomic).  kinds[c] is the column dtype,
   tags[k] the tag of the value destined to the k-th addressed column.                      *)
ColOutcomes(dts, addressed, tags) ==
    [k \in 1..Len(addressed) |-> AssignOutcome(dts[addressed[k]], tags[k])]
TableAssignOk(dts, addressed, tags) == \A k \in 1..Len(addressed) : ColOutcomes(dts, addressed, tags)[k] # "reject"
NewColDtype(dts, addressed, tags, c) ==
    IF \E k \in 1..Len(addressed) : addressed[k] = c
      THEN Promote(dts[c], tags[CHOOSE k \in 1..Len(addressed) : addressed[k] = c]) ELSE dts[c]
=============================================================================
