--------------------------- MODULE SerifHeap ---------------------------
(* THE state machine of serif: what a user program can hold and how the library keeps
   those objects independent.

   Objects   : vector objects (Obj, small ints) and tables (Tab).  A vector has a storage
               identity `store[o]` (the id() of its immutable element tuple); contents live
               in `heap[sid]`.  Every write swaps the tuple (copy-on-write): new identity.
   usertup   : identities of tuples the *program* still references (Vector(tup) shares them).
   Tables    : own a tuple of column objects `cols[t]` with its own identity `tsid[t]`;
               building a table snapshots every input (fresh objects, fresh storage).
   Registry  : reg[sid] = live objects registered under that identity (alias_tracker.py;
               weak references: a dead object silently leaves).
   Caches    : fpv / fpt fingerprint memos, cmap cached accessor map (+ wild flags), tlen.
   Liveness  : an object is live iff the program holds it (held) or it is a column of a
               live table (reference counting makes Drop immediate).

   Each public call is ONE action, written as a pure operator  S -> [st, res]  so that the
   model checker (MC_Heap), the case generator and the trace validator share them.
   Deviations of the implementation (found on the pinned tree) are the Dev_* branches,
   enabled only through the constant Devs.                                              *)
EXTENDS Integers, Sequences, FiniteSets, SequencesExt, TLC

CONSTANTS NObj, NTab, NSid, Devs

Obj == 1..NObj
Tab == 101..(100 + NTab)
Sid == 1..NSid
NoName == "-"
NoneV == 0 - 1
FloatV == 5                    \* the one value of a wider kind (a float) used for promotion
NoMemo == <<>>

SetMin(S) == CHOOSE x \in S : \A y \in S : x <= y
RangeOf(s) == {s[i] : i \in 1..Len(s)}

(* ------------------------------------------------------------------ initial state *)
InitState ==
  [ live |-> {}, held |-> [o \in Obj |-> FALSE], store |-> [o \in Obj |-> 0],
    heap |-> [s \in Sid |-> <<>>], usertup |-> {},
    kind |-> [o \in Obj |-> "int"], nullable |-> [o \in Obj |-> FALSE],
    name |-> [o \in Obj |-> NoName], wild |-> [o \in Obj |-> FALSE],
    cols |-> [t \in Tab |-> <<>>], tsid |-> [t \in Tab |-> 0], tlen |-> [t \in Tab |-> 0],
    reg |-> [s \in Sid |-> {}], fpv |-> [o \in Obj |-> NoMemo], fpt |-> [t \in Tab |-> NoMemo],
    cmap |-> [t \in Tab |-> <<>>],
    stale |-> [s \in Sid |-> 0],   \* ghost: how many vectors registered on this (still used) storage have died: the
                           \* registry's dead weak references.  They never count - but histories with 0, 1, 2 ...
                           \* dead sharers are different histories of the tracker and must all be explored
    shareable |-> {},      \* ghost: identities that came into being as caller-supplied tuples (while still in use): the only
                           \* storage two live vectors may legitimately share (C15)
    raw |-> {},            \* ghost: objects made by copy.copy / copy.deepcopy that have not registered yet (Python rebuilds them
                           \* without __init__: same storage tuple as the original, no registry entry until their first write)
    uown |-> {},           \* ghost: vectors the program created as standalone objects (never a table's)
    everobs |-> {},        \* ghost: <<object, family>> pairs: a read-only operation of that family has been applied to the
                           \* object before (keeps apart the histories in which an implementation might have cached something)
    everfp |-> {} ]        \* ghost: objects whose fingerprint() has EVER been called (C16: "whether or not it had
                           \* been called, and cached, earlier") - keeps such histories apart in the explored graph

LiveVec(S) == S.live \cap Obj
LiveTab(S) == S.live \cap Tab
ColumnsOf(S, t) == RangeOf(S.cols[t])
IsColumn(S, o) == \E t \in LiveTab(S) : o \in ColumnsOf(S, t)
TableOf(S, o) == CHOOSE t \in LiveTab(S) : o \in ColumnsOf(S, t)
Contents(S, o) == S.heap[S.store[o]]
InUse(S, s) == \/ s \in S.usertup
               \/ \E o \in LiveVec(S) : S.store[o] = s
               \/ \E t \in LiveTab(S) : S.tsid[t] = s
FreeSids(S) == {s \in Sid : ~InUse(S, s)}
DeadObjs(S) == Obj \ S.live
DeadTabs(S) == Tab \ S.live

(* canonical allocation: the k lowest free identities / dead object slots.  With a
   deviation enabled, a single allocation may also pick ANY free identity that still has
   registry entries: CPython re-using the address of freed storage ("Recycle").           *)
RECURSIVE LowestK(_, _)
LowestK(S, k) == IF k = 0 \/ S = {} THEN <<>> ELSE <<SetMin(S)>> \o LowestK(S \ {SetMin(S)}, k - 1)
CleanFree(S) == {s \in FreeSids(S) : S.reg[s] = {}}
AllocOne(S) == (IF CleanFree(S) = {} THEN {} ELSE {SetMin(CleanFree(S))})
               \cup {s \in FreeSids(S) : S.reg[s] # {}}

(* ------------------------------------------------------------------ normalisation
   after an action: objects that are no longer referenced die; dead things leave the
   registry (weak references), their slots are reset, unused storage is released.        *)
Min2(a, b) == IF a < b THEN a ELSE b
Settle(S0) ==
  LET lt   == S0.live \cap Tab
      lv   == {o \in Obj : o \in S0.live /\ (S0.held[o] \/ \E t \in lt : o \in RangeOf(S0.cols[t]))}
      lv2  == lv
      L    == lt \cup lv2
      used == S0.usertup \cup {S0.store[o] : o \in lv2} \cup {S0.tsid[t] : t \in lt}
  IN [ S0 EXCEPT
        !.live = L,
        !.held = [o \in Obj |-> S0.held[o] /\ o \in L],
        !.store = [o \in Obj |-> IF o \in L THEN S0.store[o] ELSE 0],
        !.heap = [s \in Sid |-> IF s \in used THEN S0.heap[s] ELSE <<>>],
        !.kind = [o \in Obj |-> IF o \in L THEN S0.kind[o] ELSE "int"],
        !.nullable = [o \in Obj |-> o \in L /\ S0.nullable[o]],
        !.name = [o \in Obj |-> IF o \in L THEN S0.name[o] ELSE NoName],
        !.wild = [o \in Obj |-> o \in L /\ S0.wild[o]],
        !.cols = [t \in Tab |-> IF t \in L THEN S0.cols[t] ELSE <<>>],
        !.tsid = [t \in Tab |-> IF t \in L THEN S0.tsid[t] ELSE 0],
        !.tlen = [t \in Tab |-> IF t \in L THEN S0.tlen[t] ELSE 0],
        !.reg = [s \in Sid |-> S0.reg[s] \cap L],
        !.stale = [s \in Sid |-> IF s \in used THEN Min2(3, S0.stale[s] + Cardinality(S0.reg[s] \ L)) ELSE 0],
        !.fpv = [o \in Obj |-> IF o \in L THEN S0.fpv[o] ELSE NoMemo],
        !.fpt = [t \in Tab |-> IF t \in L THEN S0.fpt[t] ELSE NoMemo],
        !.cmap = [t \in Tab |-> IF t \in L THEN S0.cmap[t] ELSE <<>>],
        !.shareable = S0.shareable \cap used,
        !.raw = S0.raw \cap L,
        !.uown = S0.uown \cap L,
        !.everfp = S0.everfp \cap L,
        !.everobs = {p \in S0.everobs : p[1] \in L} ]

Out(S, r) == [st |-> Settle(S), res |-> r]
Same(S, r) == [st |-> S, res |-> r]

(* ------------------------------------------------------------------ typing helpers *)
KindOfVals(vals) == IF FloatV \in RangeOf(vals) THEN "float"
                    ELSE IF RangeOf(vals) = {NoneV} THEN "object"       \* nothing but None: object?
                    ELSE "int"
NullOfVals(vals) == NoneV \in RangeOf(vals)
NamesOf(S, t) == [i \in 1..Len(S.cols[t]) |-> S.name[S.cols[t][i]]]

(* register / unregister exactly as alias_tracker does (dead references never count) *)
Register(reg, x, s)   == [reg EXCEPT ![s] = @ \cup {x}]
Unregister(reg, x, s) == [reg EXCEPT ![s] = @ \ {x}]

(* ------------------------------------------------------------------ vector actions *)
(* Vector(values)  /  tup = (...); Vector(tup)   [fromTuple: the program keeps `tup`] *)
NewVec(S, vals, fromTuple, s) ==
  LET o == SetMin(DeadObjs(S)) IN
  Out([S EXCEPT !.live = @ \cup {o}, !.held[o] = TRUE, !.store[o] = s, !.heap[s] = vals,
                !.usertup = IF fromTuple THEN @ \cup {s} ELSE @,
                !.shareable = IF fromTuple THEN @ \cup {s} ELSE @,
                !.kind[o] = KindOfVals(vals), !.nullable[o] = NullOfVals(vals),
                !.uown = @ \cup {o}, !.reg = Register(S.reg, o, s)], "Ok")

(* a second Vector over a tuple the program still holds: shares the identity *)
ShareVec(S, s) ==
  LET o == SetMin(DeadObjs(S)) IN
  Out([S EXCEPT !.live = @ \cup {o}, !.held[o] = TRUE, !.store[o] = s,
                !.kind[o] = KindOfVals(S.heap[s]), !.nullable[o] = NullOfVals(S.heap[s]),
                !.uown = @ \cup {o}, !.reg = Register(S.reg, o, s)], "Ok")

DropTuple(S, s) == Out([S EXCEPT !.usertup = @ \ {s}], "Ok")

(* v.copy() / v[:] / v[mask of all True]: fresh object, fresh storage, name and dtype kept *)
CopyVec(S, src, s) ==
  LET o == SetMin(DeadObjs(S)) IN
  Out([S EXCEPT !.live = @ \cup {o}, !.held[o] = TRUE, !.store[o] = s, !.heap[s] = Contents(S, src),
                !.kind[o] = S.kind[src], !.nullable[o] = S.nullable[src], !.name[o] = S.name[src],
                !.uown = @ \cup {o}, !.reg = Register(S.reg, o, s)], "Ok")

(* d = copy.copy(v) / copy.deepcopy(v): Python's own copy protocol, not the library's - the duplicate is rebuilt without
   __init__, so it sits on v's storage tuple (tuples of immutables are not deep-copied) and is NOT registered.  Harmless as long
   as the registry is kept exactly: neither is refused, each write swaps in a fresh tuple, and the duplicate registers then.   *)
RawCopy(S, src) ==
  LET o == SetMin(DeadObjs(S)) IN
  Out([S EXCEPT !.live = @ \cup {o}, !.held[o] = TRUE, !.store[o] = S.store[src],
                !.kind[o] = S.kind[src], !.nullable[o] = S.nullable[src], !.name[o] = S.name[src], !.fpv[o] = S.fpv[src],
                !.uown = @ \cup {o}, !.raw = @ \cup {o}, !.shareable = @ \cup {S.store[src]}], "Ok")

(* w = v << []  (also v << Vector([]), [] << v): an operation result like any other - a new vector on FRESH storage.
   (CPython returns the SAME tuple for t + (); the pinned tree built the result over v's own tuple, so the result
   was refused a write while v lived.  Deviation "ConcatShares" keeps that behaviour.)                              *)
ConcatEmpty(S, src, s) ==
  LET o == SetMin(DeadObjs(S))
      st == IF "ConcatShares" \in Devs THEN S.store[src] ELSE s IN
  Out([S EXCEPT !.live = @ \cup {o}, !.held[o] = TRUE, !.store[o] = st, !.heap[st] = Contents(S, src),
                !.kind[o] = S.kind[src], !.nullable[o] = S.nullable[src],
                !.uown = @ \cup {o}, !.reg = Register(S.reg, o, st)], "Ok")

Drop(S, o) == Out([S EXCEPT !.held[o] = FALSE], "Ok")

Writable(S, o) == Cardinality(S.reg[S.store[o]] \cap S.live) <= 1

(* v[i] = x through any handle (the vector itself, a live column view, a table cell):
   alias check -> promotion if needed -> ONE swap to a fresh tuple -> memo invalidated ->
   re-registration under the new identity.                                              *)
WriteVec(S, o, i, x, s) ==
  IF ~Writable(S, o) THEN Same(S, "Refused")
  ELSE
    LET old == S.store[o]
        nv  == [Contents(S, o) EXCEPT ![i] = x]
        reg1 == IF "NoUnregister" \in Devs THEN S.reg ELSE Unregister(S.reg, o, old)
        fpt1 == S.fpt                         \* a table memo (deviation only) is NOT invalidated
    IN Out([S EXCEPT !.store[o] = s, !.heap[s] = nv, !.raw = @ \ {o},
                     !.kind[o] = IF x = FloatV /\ @ # "object" THEN "float" ELSE @,
                     !.nullable[o] = IF x = NoneV THEN TRUE ELSE @,
                     !.reg = Register(reg1, o, s),
                     !.fpv[o] = IF "VecFpNotInvalidated" \in Devs THEN @ ELSE NoMemo,
                     !.fpt = fpt1], "Ok")

(* a write that addresses NO position (v[3:1] = x, v[2:2] = [], an all-False mask, an empty index list, t[3:1, name] = x):
   the alias check comes first (shared storage: refused); otherwise nothing observable changes - same contents, length
   and dtype - while the implementation still swaps in a fresh equal tuple, drops the memo and re-registers        *)
WriteNone(S, o, s) ==
  IF ~Writable(S, o) THEN Same(S, "Refused")
  ELSE LET old == S.store[o] IN
       Out([S EXCEPT !.store[o] = s, !.heap[s] = Contents(S, o), !.raw = @ \ {o},
                     !.reg = Register(Unregister(S.reg, o, old), o, s),
                     !.fpv[o] = NoMemo], "Ok")

(* t[r] = row  /  t[r, :] = row : one write per column, ALL OR NOTHING - if any column cannot be written
   (its storage is shared) the call is refused and no column changes (C01, C08)                      *)
WriteRow(S, t, r, xs, sids) ==
  LET cs == S.cols[t]  n == Len(cs)
      pos(o) == CHOOSE i \in 1..n : cs[i] = o IN
  IF \E i \in 1..n : ~Writable(S, cs[i]) THEN Same(S, "Refused")
  ELSE Out([S EXCEPT
        !.store = [o \in Obj |-> IF o \in RangeOf(cs) THEN sids[pos(o)] ELSE S.store[o]],
        !.heap = [q \in Sid |-> IF \E i \in 1..n : sids[i] = q
                                  THEN [Contents(S, cs[CHOOSE i \in 1..n : sids[i] = q]) EXCEPT ![r] = xs[CHOOSE i \in 1..n : sids[i] = q]]
                                  ELSE S.heap[q]],
        !.reg = [q \in Sid |-> (S.reg[q] \ RangeOf(cs)) \cup {cs[i] : i \in {j \in 1..n : sids[j] = q}}],
        !.fpv = [o \in Obj |-> IF o \in RangeOf(cs) THEN NoMemo ELSE S.fpv[o]]], "Ok")

(* v.fingerprint(): returns a function of the current contents; memoises it *)
ReadFpV(S, o) == Same([S EXCEPT !.fpv[o] = IF @ = NoMemo THEN <<Contents(S, o)>> ELSE @, !.everfp = @ \cup {o}],
                      IF S.fpv[o] = NoMemo THEN "Ok" ELSE "OkCached")
FpResultV(S, o) == IF S.fpv[o] = NoMemo THEN Contents(S, o) ELSE S.fpv[o][1]

(* ------------------------------------------------------------------ table actions *)
TableContents(S, t) == [i \in 1..Len(S.cols[t]) |-> Contents(S, S.cols[t][i])]

(* Table([v1, v2]) / Table({...}) / Vector([v1, v2]) / t0 >> v / t0[names] / t0[slice] ...:
   every input column is snapshotted: fresh column objects on fresh storage, names kept.
   Unequal lengths are rejected and nothing changes.                                      *)
NewTable(S, srcs, sids, objs) ==
  LET t == SetMin(DeadTabs(S))
      n == Len(srcs)
      lens == {Len(Contents(S, srcs[i])) : i \in 1..n}
  IN IF Cardinality(lens) > 1 /\ "RaggedAccepted" \notin Devs THEN Same(S, "Err")
     ELSE
       LET S1 == [S EXCEPT
                   !.live = @ \cup {t} \cup RangeOf(objs),
                   !.store = [o \in Obj |-> IF \E i \in 1..n : objs[i] = o
                                              THEN sids[CHOOSE i \in 1..n : objs[i] = o] ELSE S.store[o]],
                   !.heap = [q \in Sid |-> IF \E i \in 1..n : sids[i] = q
                                              THEN Contents(S, srcs[CHOOSE i \in 1..n : sids[i] = q]) ELSE S.heap[q]],
                   !.kind = [o \in Obj |-> IF \E i \in 1..n : objs[i] = o
                                              THEN S.kind[srcs[CHOOSE i \in 1..n : objs[i] = o]] ELSE S.kind[o]],
                   !.nullable = [o \in Obj |-> IF \E i \in 1..n : objs[i] = o
                                              THEN S.nullable[srcs[CHOOSE i \in 1..n : objs[i] = o]] ELSE S.nullable[o]],
                   !.name = [o \in Obj |-> IF \E i \in 1..n : objs[i] = o
                                              THEN S.name[srcs[CHOOSE i \in 1..n : objs[i] = o]] ELSE S.name[o]],
                   !.cols[t] = objs, !.tsid[t] = sids[n + 1],
                   !.tlen[t] = Len(Contents(S, srcs[1])),
                   !.reg = [q \in Sid |-> S.reg[q]
                               \cup {objs[i] : i \in {j \in 1..n : sids[j] = q}}
                               \cup (IF sids[n + 1] = q THEN {t} ELSE {})],
                   !.cmap[t] = [i \in 1..n |-> S.name[srcs[i]]] ]
       IN Out(S1, "Ok")

(* t.<accessor> = d : the slot receives a SNAPSHOT of d under the slot's old name; the
   column tuple is rebuilt (new identity, re-registered); wrong length is rejected.       *)
SetAttr(S, t, i, d, cs, ts, c) ==
  IF Len(Contents(S, d)) # S.tlen[t] THEN Same(S, "Err")
  ELSE IF "SetAttrShare" \in Devs THEN
       (* what the code did: store the donor object itself and rename IT *)
       Out([S EXCEPT !.cols[t][i] = d, !.name[d] = S.name[S.cols[t][i]],
                     !.tsid[t] = ts,
                     !.reg = IF "SetAttrNoReregister" \in Devs THEN S.reg
                             ELSE Register(Unregister(S.reg, t, S.tsid[t]), t, ts),
                     !.cmap[t] = [NamesOf(S, t) EXCEPT ![i] = S.name[S.cols[t][i]]]], "Ok")
  ELSE
       Out([S EXCEPT !.live = @ \cup {c}, !.store[c] = cs, !.heap[cs] = Contents(S, d),
                     !.kind[c] = S.kind[d], !.nullable[c] = S.nullable[d],
                     !.name[c] = S.name[S.cols[t][i]],
                     !.cols[t][i] = c, !.tsid[t] = ts,
                     !.reg = LET r1 == Register(S.reg, c, cs) IN
                             IF "SetAttrNoReregister" \in Devs THEN r1
                             ELSE Register(Unregister(r1, t, S.tsid[t]), t, ts),
                     !.cmap[t] = NamesOf(S, t)], "Ok")

(* col = t.a  (the program keeps the live view) *)
ColView(S, t, i) == Out([S EXCEPT !.held[S.cols[t][i]] = TRUE], "Ok")
DropTable(S, t) == Out([S EXCEPT !.live = @ \ {t}], "Ok")

(* t.fingerprint(): a function of the current contents of every column.  The intended
   design keeps no table-level memo; TableFpMemo is what the code did (never invalidated). *)
ColumnMemos(S, t) ==         \* computing the table's fingerprint memoises every column's own
  [o \in Obj |-> IF o \in ColumnsOf(S, t) /\ S.fpv[o] = NoMemo THEN <<Contents(S, o)>> ELSE S.fpv[o]]
ReadFpT(S, t) ==
  IF "TableFpMemo" \in Devs
    THEN Same([S EXCEPT !.fpt[t] = IF @ = NoMemo THEN <<TableContents(S, t)>> ELSE @,
                        !.fpv = IF S.fpt[t] = NoMemo THEN ColumnMemos(S, t) ELSE @,
                        !.everfp = @ \cup {t} \cup ColumnsOf(S, t)], "Ok")
    ELSE Same([S EXCEPT !.fpv = ColumnMemos(S, t), !.everfp = @ \cup {t} \cup ColumnsOf(S, t)], "Ok")
FpResultT(S, t) == IF S.fpt[t] = NoMemo THEN TableContents(S, t) ELSE S.fpt[t][1]

(* ------------------------------------------------------------------ read-only operations
   Every value-returning operation (unary / comparison / reductions / isna-dropna-fillna / sort / aggregate /
   window / join / selection / iteration / repr / fingerprint / dir) is a FUNCTION OF THE CURRENT CONTENTS, NAMES
   AND DTYPES of its operands and changes nothing (C01, and the "whatever happened before" of C05-C14, C16-C20).
   In the model an observation is a stuttering step on everything but the ghost; the binding checks the result
   against the same operation applied to an object freshly rebuilt from the current plain values.            *)
Observe(S, x, fam) == Same([S EXCEPT !.everobs = @ \cup {<<x, fam>>}], "Ok")

(* ------------------------------------------------------------------ names *)
(* v.name = nm through a live view or a held vector: marks it wild *)
Rename(S, o, nm) == Out([S EXCEPT !.name[o] = nm, !.wild[o] = IsColumn(S, o)], "Ok")
(* t.rename_column(old, new): first column carrying the old name; rebuilds the map *)
RenameColumn(S, t, i, nm) ==
  LET S1 == [S EXCEPT !.name[S.cols[t][i]] = nm] IN
  Out([S1 EXCEPT !.cmap[t] = NamesOf(S1, t),
                 !.wild = [o \in Obj |-> IF o \in ColumnsOf(S, t) THEN FALSE ELSE S.wild[o]]], "Ok")
(* the accessor of column i for a list of stored names (a,b stay as they are) *)
Accessor(names, i) ==
  IF names[i] = NoName THEN "col" \o ToString(i - 1) \o "_"
  ELSE IF \E j \in 1..(i - 1) : names[j] = names[i] THEN names[i] \o "__" \o ToString(i - 1)
  ELSE names[i]
Accessors(names) == [i \in 1..Len(names) |-> Accessor(names, i)]
(* 0 = no such column *)
ResolveIn(names, acc) == IF \E i \in 1..Len(names) : Accessor(names, i) = acc
                           THEN CHOOSE i \in 1..Len(names) : Accessor(names, i) = acc ELSE 0
(* t.<acc>, t[row].<acc>, t[row, acc] = x : all resolve against the CURRENT names.
   `how` = "getattr" refreshes the cached map; the deviation lets the other two read the
   cached map although a column was renamed through a live view.                           *)
(* the map every lookup goes through: rebuilt first iff some column is flagged as renamed
   (Table._current_column_map); in the intended design it always equals the current names
   because a stale cache is always flagged (invariant CmapFreshOrFlagged)                  *)
CurrentMap(S, t) == IF \E o \in ColumnsOf(S, t) : S.wild[o] THEN NamesOf(S, t) ELSE S.cmap[t]
LookupNames(S, t, how) ==
  IF how # "getattr" /\ "CmapStale" \in Devs THEN S.cmap[t] ELSE CurrentMap(S, t)
Refreshed(S, t) == [S EXCEPT !.cmap[t] = CurrentMap(S, t),
                             !.wild = [o \in Obj |-> IF o \in ColumnsOf(S, t) THEN FALSE ELSE S.wild[o]]]
Lookup(S, t, acc, how) ==
  LET r == ResolveIn(LookupNames(S, t, how), acc) IN
  Same(IF how = "getattr" \/ "CmapStale" \notin Devs THEN Refreshed(S, t) ELSE S,
       IF r = 0 THEN "Missing" ELSE "Col" \o ToString(r))
(* dir(t): advertises the accessors of the CURRENT names; it may refresh the cache.  What
   the code did (DirTames): clear the renamed flags WITHOUT storing the rebuilt map.        *)
Dir(S, t) ==
  IF "DirTames" \in Devs
    THEN Same([S EXCEPT !.wild = [o \in Obj |-> IF o \in ColumnsOf(S, t) THEN FALSE ELSE S.wild[o]]], "Ok")
    ELSE Same(Refreshed(S, t), "Ok")

(* ------------------------------------------------------------------ views (C01) *)
VecView(S, o) == <<Contents(S, o), S.name[o], S.kind[o], S.nullable[o]>>
TabView(S, t) == [i \in 1..Len(S.cols[t]) |-> VecView(S, S.cols[t][i])]

(* ------------------------------------------------------------------ invariants *)
StoreOf(S, x) == IF x \in Obj THEN S.store[x] ELSE S.tsid[x]
RegistryExact(S) == \A s \in Sid : S.reg[s] \cap S.live = {x \in S.live \ S.raw : StoreOf(S, x) = s}
Sharers(S, o) == {p \in LiveVec(S) : S.store[p] = S.store[o]}
NoSpuriousRefusal(S) == \A o \in LiveVec(S) : ~Writable(S, o) => Cardinality(Sharers(S, o)) > 1
OwnershipDisjoint(S) ==
  /\ \A t \in LiveTab(S) : ColumnsOf(S, t) \cap S.uown = {}          \* a table never holds the program's own vector
  /\ \A t, u \in LiveTab(S) : t # u => ColumnsOf(S, t) \cap ColumnsOf(S, u) = {}
  /\ \A t \in LiveTab(S) : \A i, j \in 1..Len(S.cols[t]) : i # j => S.cols[t][i] # S.cols[t][j]
(* C15: two live vectors share storage only over a tuple the caller supplied; operation results, copies, slices and
   table columns never share (so they are always writable) *)
SharingJustified(S) == \A a, b \in LiveVec(S) : (a # b /\ S.store[a] = S.store[b]) => S.store[a] \in S.shareable
Rect(S) == \A t \in LiveTab(S) : \A i \in 1..Len(S.cols[t]) : Len(Contents(S, S.cols[t][i])) = S.tlen[t]
FpCoherent(S) ==
  /\ \A o \in LiveVec(S) : S.fpv[o] # NoMemo => S.fpv[o][1] = Contents(S, o)
  /\ \A t \in LiveTab(S) : S.fpt[t] # NoMemo => S.fpt[t][1] = TableContents(S, t)
DtypeTruthful(S) == \A o \in LiveVec(S) :
  /\ (NoneV \in RangeOf(Contents(S, o)) => S.nullable[o])
  /\ (FloatV \in RangeOf(Contents(S, o)) => S.kind[o] \in {"float", "object"})
Sane(S) == /\ \A o \in LiveVec(S) : S.store[o] \in Sid
           /\ \A t \in LiveTab(S) : S.tsid[t] \in Sid /\ ColumnsOf(S, t) \subseteq S.live
           /\ \A o \in LiveVec(S) : \A t \in LiveTab(S) : S.store[o] # S.tsid[t]
(* the cached accessor map may be stale only while the staleness is flagged (wild) *)
CmapFreshOrFlagged(S) == \A t \in LiveTab(S) :
  S.cmap[t] # NamesOf(S, t) => \E o \in ColumnsOf(S, t) : S.wild[o]
=============================================================================
