--------------------------- MODULE SerifTypes ---------------------------
(* Dtype lattice of serif (src/serif/typing.py): kinds, the declarative least upper
   bound `Lub` written from the statement of C04, the inference automaton `Step`
   shaped like infer_dtype / DataType.promote_with (one step per element), the
   truthfulness predicate of C03 and the acceptance rule of validate_scalar (C08).

   A dtype is a record [kind |-> Kind, nullable |-> BOOLEAN].  Element "tags" are the
   Python type classes that the library distinguishes; "none" is the tag of None.      *)
EXTENDS Naturals, Sequences, FiniteSets

CONSTANT Devs          \* set of enabled deviation names (empty in the intended design)

Numeric  == {"bool", "int", "float", "complex"}
Temporal == {"date", "datetime"}
Opaque   == {"str", "bytes", "list", "dict", "tuple", "otherA", "otherB"}
ValueTags == Numeric \cup Temporal \cup Opaque
Tags     == ValueTags \cup {"none"}
Kinds    == ValueTags \cup {"object"}

Rank(k) == CASE k = "bool" -> 0 [] k = "int" -> 1 [] k = "float" -> 2 [] k = "complex" -> 3
             [] k = "date" -> 0 [] k = "datetime" -> 1 [] OTHER -> 0

DType(k, n) == [kind |-> k, nullable |-> n]

(* ---------------- declarative lattice (from the statement) ---------------- *)
LubKinds(S) ==
    IF S = {} THEN "object"
    ELSE IF Cardinality(S) = 1 THEN CHOOSE k \in S : TRUE
    ELSE IF S \subseteq Numeric  THEN CHOOSE k \in S : \A j \in S : Rank(j) <= Rank(k)
    ELSE IF S \subseteq Temporal THEN "datetime"
    ELSE "object"

Lub(seen) == DType(LubKinds(seen \ {"none"}), "none" \in seen)

(* k1 below-or-equal k2 in the lattice *)
KindLeq(a, b) == \/ a = b
                 \/ b = "object"
                 \/ a \in Numeric  /\ b \in Numeric  /\ Rank(a) <= Rank(b)
                 \/ a \in Temporal /\ b \in Temporal /\ Rank(a) <= Rank(b)
DTypeLeq(d, e) == KindLeq(d.kind, e.kind) /\ (d.nullable => e.nullable)

(* ---------------- the automaton (shape of infer_dtype) ---------------- *)
Join2(k, t) ==
    IF k = t THEN k
    ELSE IF k \in Numeric  /\ t \in Numeric  THEN (IF Rank(k) >= Rank(t) THEN k ELSE t)
    ELSE IF k \in Temporal /\ t \in Temporal THEN "datetime"
    ELSE "object"

Start == [kind |-> "unset", nullable |-> FALSE]

Step(st, t) ==
    IF t = "none" THEN
        (IF "LeadingNoneObject" \in Devs /\ st.kind = "unset"
           THEN [kind |-> "object", nullable |-> TRUE]       \* what the code did: first None fixes object?
           ELSE [st EXCEPT !.nullable = TRUE])
    ELSE IF st.kind = "unset" THEN [st EXCEPT !.kind = t]
    ELSE [st EXCEPT !.kind = Join2(st.kind, t)]

Report(st) == DType(IF st.kind = "unset" THEN "object" ELSE st.kind, st.nullable)

RECURSIVE FoldFrom(_, _, _)
FoldFrom(st, s, i) == IF i > Len(s) THEN st ELSE FoldFrom(Step(st, s[i]), s, i + 1)
Infer(s) == Report(FoldFrom(Start, s, 1))

(* DataType.promote_with(value): a step from a set state *)
Promote(dt, t) == Report(Step([kind |-> dt.kind, nullable |-> dt.nullable], t))

(* ---------------- truthfulness (C03) ---------------- *)
Belongs(t, k) == KindLeq(t, k)
Truthful(dt, tags) == \A t \in tags : IF t = "none" THEN dt.nullable ELSE Belongs(t, dt.kind)

(* ---------------- acceptance on assignment (C08; validate_scalar + promotion) ----------- *)
(* outcome of writing a value with tag t into a column of dtype dt:
     "keep"    - accepted, dtype unchanged
     "promote" - accepted, column promoted to Promote(dt, t) (existing elements converted)
     "reject"  - SerifTypeError, nothing changes                                         *)
AssignOutcome(dt, t) ==
    IF t = "none" THEN (IF dt.nullable THEN "keep" ELSE "promote")
    ELSE IF dt.kind = "object" THEN "keep"
    ELSE IF KindLeq(t, dt.kind) THEN "keep"
    ELSE IF KindLeq(dt.kind, t) /\ t # "object" THEN "promote"
    ELSE "reject"
=============================================================================
