SPECIFICATION Spec
CONSTANTS
  NObj = 3
  NTab = 1
  NSid = 4
  Devs = {"NoUnregister"}
  Acts = {"ConcatEmpty", "NewVec", "ShareVec", "Copy", "Drop", "Write", "ReadFp", "Promote"}
  Lens = {1}
  Vals = {0, 1}
  NameSet = {"-"}
  MaxDepth = 5
  MaxCols = 1
  Emit = FALSE
  ObsV = {}
  ObsT = {}
VIEW View
CONSTRAINT Bound
INVARIANT InvNoSpuriousRefusal
CHECK_DEADLOCK FALSE
