--------------------------- MODULE SerifSort ---------------------------
(* Sorting (Table.sort_by, Vector.sort_by).  K is the sequence of key tuples of the rows,
   rev the per-key reverse flags, naLast the None placement.  Written from C14.          *)
EXTENDS SerifBase

CONSTANT SortDevs

(* strict order between two key VALUES for one key column *)
ValBefore(a, b, r, naLast) ==
    IF a = b THEN FALSE
    ELSE IF IsNone(a) THEN ~naLast              \* None first iff na_last = FALSE, whatever the direction
    ELSE IF IsNone(b) THEN naLast
    ELSE IF r THEN a > b ELSE a < b

(* lexicographic strict order between key tuples *)
RECURSIVE TupBeforeFrom(_, _, _, _, _)
TupBeforeFrom(x, y, rev, naLast, c) ==
    IF c > Len(rev) THEN FALSE
    ELSE IF x[c] = y[c] THEN TupBeforeFrom(x, y, rev, naLast, c + 1)
    ELSE ValBefore(x[c], y[c], rev[c], naLast)
TupBefore(x, y, rev, naLast) == TupBeforeFrom(x, y, rev, naLast, 1)

(* THE stable permutation: order by keys, ties by original position *)
RowBefore(K, rev, naLast, i, j) ==
    TupBefore(K[i], K[j], rev, naLast) \/ (~TupBefore(K[j], K[i], rev, naLast) /\ i < j)
SortPerm(K, rev, naLast) == SortSeq(Idx(K), LAMBDA i, j : RowBefore(K, rev, naLast, i, j))

(* ---- the primitive the implementation uses: Python's list.sort(key=, reverse=) ----
   stable in both directions: elements with equal keys keep their order.
   The key of the implementation is (flag, value); flag decides None placement.         *)
Flag(v, r, naLast) ==
    IF "FlagNotFlipped" \in SortDevs
      THEN (IF naLast THEN IsNone(v) ELSE ~IsNone(v))               \* Vector.sort_by's old key
      ELSE IF naLast THEN (IF r THEN ~IsNone(v) ELSE IsNone(v))
                     ELSE (IF r THEN IsNone(v) ELSE ~IsNone(v))
(* (flag, value) tuple comparison, ascending; values compared only when flags agree *)
KeyLess(a, b, r, naLast) ==
    LET fa == Flag(a, r, naLast)  fb == Flag(b, r, naLast) IN
    IF fa # fb THEN (~fa /\ fb) ELSE (~IsNone(a) /\ ~IsNone(b) /\ a < b)
PassBefore(seq, col, r, naLast, p, q) ==        \* positions p, q of seq
    LET a == col[seq[p]]  b == col[seq[q]] IN
    IF r THEN KeyLess(b, a, r, naLast) \/ (~KeyLess(a, b, r, naLast) /\ ~KeyLess(b, a, r, naLast) /\ p < q)
         ELSE KeyLess(a, b, r, naLast) \/ (~KeyLess(a, b, r, naLast) /\ ~KeyLess(b, a, r, naLast) /\ p < q)
StablePass(seq, col, r, naLast) ==
    LET pos == SortSeq(Idx(seq), LAMBDA p, q : PassBefore(seq, col, r, naLast, p, q))
    IN [k \in 1..Len(seq) |-> seq[pos[k]]]

(* ---- laws ---- *)
IsPerm(p, n) == Len(p) = n /\ RangeOf(p) = 1..n
Ordered(K, rev, naLast, p) == \A a, b \in 1..Len(p) : a < b => ~TupBefore(K[p[b]], K[p[a]], rev, naLast)
Stable(K, rev, naLast, p) == \A a, b \in 1..Len(p) :
    (a < b /\ ~TupBefore(K[p[a]], K[p[b]], rev, naLast)) => p[a] < p[b]
NonePlacement(K, naLast, p) ==      \* first key column: all None rows at the end (or the start)
    \A a, b \in 1..Len(p) : (a < b) =>
        (IF naLast THEN ~(IsNone(K[p[a]][1]) /\ ~IsNone(K[p[b]][1]))
                   ELSE ~(~IsNone(K[p[a]][1]) /\ IsNone(K[p[b]][1])))
=============================================================================
