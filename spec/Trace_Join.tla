--------------------------- MODULE Trace_Join ---------------------------
(* Trace validator for joins executed by the real library.  Event fields:
     kind, expect, lk, rk (key tuples per row), lrows, rrows (all cells per row, ints,
     -1 = None), lw, rw (column counts), res ("ok" | "err"), errclass, rows (result rows).
   Verdict: "ok" or the first failing clause
     cardinality  - raised / did not raise against Outcome (C11)
     errclass     - raised something other than SerifValueError for a cardinality failure (C11)
     rows_inner / rows_left / rows_full - result rows differ from the definition (C09 / C10)  *)
EXTENDS SerifJoin, TLC, Json, IOUtils

Trace == ndJsonDeserialize(IOEnv.TRACE_FILE)

Verdict(e) ==
    LET o == Outcome(e.kind, e.expect, e.lk, e.rk) IN
    IF ~o.ok THEN (IF e.res # "err" THEN "cardinality"
                   ELSE IF e.errclass # "SerifValueError" THEN "errclass" ELSE "ok")
    ELSE IF e.res # "ok" THEN "cardinality"
    ELSE IF Len(o.pairs) = 0 THEN (IF Len(e.rows) = 0 THEN "ok" ELSE "rows_" \o e.kind)
    ELSE IF e.rows = OutRows(e.lrows, e.rrows, e.lw, e.rw, o.pairs) THEN "ok" ELSE "rows_" \o e.kind

Bad == {<<Trace[i].id, Verdict(Trace[i])>> : i \in {j \in 1..Len(Trace) : Verdict(Trace[j]) # "ok"}}

VARIABLE done
Init == done = FALSE
Next == done = FALSE /\ done' = TRUE
        /\ PrintT(<<"VERDICT", ToJson([n |-> Len(Trace), bad |-> Bad])>>)
=============================================================================
