--------------------------- MODULE Trace_Sort ---------------------------
(* Trace validator for sorts executed by the real library.
     tsort : K (key tuples per row), rev, naLast, perm (original position of each output row)
     vsort : K (1-tuples), rev, naLast, out (values of the sorted vector)                  *)
EXTENDS SerifSort, TLC, Json, IOUtils
Trace == ndJsonDeserialize(IOEnv.TRACE_FILE)
Verdict(e) ==
    LET p == SortPerm(e.K, e.rev, e.naLast) IN
    CASE e.op = "tsort" -> IF e.perm = p THEN "ok"
                           ELSE IF ~IsPerm(e.perm, Len(e.K)) THEN "not_a_permutation"
                           ELSE IF ~Ordered(e.K, e.rev, e.naLast, e.perm) THEN "not_ordered"
                           ELSE "not_stable"
      [] e.op = "tsort_rows" ->     \* rows recorded from the repository's own tests (cells abstracted by equality)
           IF e.outrows = [i \in 1..Len(p) |-> e.inrows[p[i]]] THEN "ok" ELSE "sort_rows"
      [] e.op = "vsort" -> IF e.out = [i \in 1..Len(p) |-> e.K[p[i]][1]] THEN "ok" ELSE "vector_sort"
      [] OTHER -> "unknown_op"
Bad == {<<Trace[i].id, Verdict(Trace[i])>> : i \in {j \in 1..Len(Trace) : Verdict(Trace[j]) # "ok"}}
VARIABLE done
Init == done = FALSE
Next == done = FALSE /\ done' = TRUE /\ PrintT(<<"VERDICT", ToJson([n |-> Len(Trace), bad |-> Bad])>>)
=============================================================================
