INIT Init
NEXT Next
CONSTANT SortDevs = {}
CHECK_DEADLOCK FALSE
