--------------------------- MODULE MC_Join ---------------------------
(* The hash-join algorithm of table.py as a step machine (one action per loop body):
     Build  - one right row per step: index[key] := Append(index[key], j); remember duplicates
     CheckR - raise if the expectation needs unique right keys and a duplicate was seen
     Probe  - one left row per step: in-loop left uniqueness check, emit matches or padding
     Sweep  - (full join) one right row per step: emit unmatched right rows
   checked against the definitional operators of SerifJoin for every input in scope.       *)
EXTENDS SerifJoin, TLC

CONSTANTS MaxRows, NKeys, Expects
KeyDom == {NoneV, 1, 2}
KeyTuples == [1..NKeys -> KeyDom]
KeyTables == SeqsUpTo(KeyTuples, MaxRows)

VARIABLES LK, RK, kind, expect, pc, ri, li, index, dups, seenL, matched, out, res
vars == <<LK, RK, kind, expect, pc, ri, li, index, dups, seenL, matched, out, res>>

Init == /\ LK \in KeyTables /\ RK \in KeyTables
        /\ kind \in {"inner", "left", "full"} /\ expect \in Expects
        /\ pc = "Start" /\ ri = 1 /\ li = 1
        /\ index = [k \in KeyTuples |-> <<>>] /\ dups = FALSE /\ seenL = {} /\ matched = {}
        /\ out = <<>> /\ res = "running"

Start == /\ pc = "Start"
         /\ IF expect \notin ValidExpect THEN pc' = "Done" /\ res' = "err" ELSE pc' = "Build" /\ res' = res
         /\ UNCHANGED <<LK, RK, kind, expect, ri, li, index, dups, seenL, matched, out>>

Build == /\ pc = "Build"
         /\ IF ri <= Len(RK)
              THEN /\ index' = [index EXCEPT ![RK[ri]] = Append(@, ri)]
                   /\ dups' = (dups \/ index[RK[ri]] # <<>>)
                   /\ ri' = ri + 1 /\ pc' = pc
              ELSE /\ pc' = "CheckR" /\ UNCHANGED <<index, dups, ri>>
         /\ UNCHANGED <<LK, RK, kind, expect, li, seenL, matched, out, res>>

CheckR == /\ pc = "CheckR"
          /\ IF NeedR(expect) /\ dups THEN pc' = "Done" /\ res' = "err" ELSE pc' = "Probe" /\ res' = res
          /\ UNCHANGED <<LK, RK, kind, expect, ri, li, index, dups, seenL, matched, out>>

Probe == /\ pc = "Probe"
         /\ IF li <= Len(LK)
              THEN LET key == LK[li]  m == index[key] IN
                   IF ChecksLeftInLoop(kind, expect) /\ key \in seenL
                     THEN /\ pc' = "Done" /\ res' = "err"
                          /\ UNCHANGED <<li, seenL, matched, out>>
                     ELSE /\ seenL' = seenL \cup {key}
                          /\ li' = li + 1 /\ pc' = pc /\ res' = res
                          /\ matched' = matched \cup RangeOf(m)
                          /\ out' = out \o (IF m # <<>> THEN [k \in 1..Len(m) |-> <<li, m[k]>>]
                                            ELSE IF kind = "inner" THEN <<>> ELSE << <<li, NoRow>> >>)
              ELSE /\ pc' = (IF kind = "full" THEN "Sweep" ELSE "Done")
                   /\ res' = (IF kind = "full" THEN res ELSE "ok")
                   /\ ri' = 1
                   /\ UNCHANGED <<li, seenL, matched, out>>
         /\ UNCHANGED <<LK, RK, kind, expect, index, dups>>
         /\ (li <= Len(LK) => UNCHANGED ri)

Sweep == /\ pc = "Sweep"
         /\ IF ri <= Len(RK)
              THEN /\ out' = (IF ri \in matched THEN out ELSE Append(out, <<NoRow, ri>>))
                   /\ ri' = ri + 1 /\ pc' = pc /\ res' = res
              ELSE /\ pc' = "Done" /\ res' = "ok" /\ UNCHANGED <<out, ri>>
         /\ UNCHANGED <<LK, RK, kind, expect, li, index, dups, seenL, matched>>

Next == Start \/ Build \/ CheckR \/ Probe \/ Sweep
Spec == Init /\ [][Next]_vars

(* ---- properties ---- *)
MachineIsDefinition ==
    pc = "Done" => LET o == Outcome(kind, expect, LK, RK) IN
                     IF o.ok THEN res = "ok" /\ out = o.pairs ELSE res = "err"
BucketsAscending == \A k \in KeyTuples : \A a, b \in 1..Len(index[k]) : a < b => index[k][a] < index[k][b]
ExpectationIsFilter == pc = "Start" =>
    LET o == Outcome(kind, expect, LK, RK) IN o.ok => o.pairs = Outcome(kind, "many_to_many", LK, RK).pairs
=============================================================================
