SPECIFICATION Spec
CONSTANTS
  NObj = 3
  NTab = 1
  NSid = 5
  Devs = {}
  Acts = {"NewVec", "NewTable", "Write", "WriteByName", "Rename", "RenameColumn", "Observe"}
  Lens = {2}
  Vals = {0, 1}
  NameSet = {"-", "a"}
  MaxDepth = 6
  MaxCols = 1
  Emit = FALSE
  ObsV = {}
  ObsT = {"sort", "agg", "join"}
VIEW View
CONSTRAINT Bound
INVARIANT InvRegistryExact
INVARIANT InvNoSpuriousRefusal
INVARIANT InvOwnership
INVARIANT InvRect
INVARIANT InvSharingJustified
INVARIANT InvFpCoherent
INVARIANT InvDtypeTruthful
INVARIANT InvSane
INVARIANT InvCmap
INVARIANT InvRefusalJustified
INVARIANT InvFpReadCurrent
INVARIANT InvLookupCurrent
ACTION_CONSTRAINT StepProps
CHECK_DEADLOCK FALSE
