--------------------------- MODULE MC_Group ---------------------------
(* Partition loop of aggregate()/window() as a machine (insertion-ordered dict: one row per
   step; a new key opens a new group at the END), window's expand step, and the
   "window = aggregate joined back on the key" law, against the definitions.             *)
EXTENDS SerifGroup, TLC
CONSTANTS MaxRows, NKeys
JoinDevs == {}
J == INSTANCE SerifJoin
KeyDom == {NoneV, 1, 2}
ValDom == {NoneV, 0, 1, 3}
KeyTuples == [1..NKeys -> KeyDom]

VARIABLES K, V, row, groups
vars == <<K, V, row, groups>>
Init == /\ \E n \in 0..MaxRows : K \in [1..n -> KeyTuples] /\ V \in [1..n -> ValDom]
        /\ row = 1 /\ groups = <<>>
PosOf(key) == IF \E g \in 1..Len(groups) : groups[g].key = key
                THEN CHOOSE g \in 1..Len(groups) : groups[g].key = key ELSE 0
Step == /\ row <= Len(K)
        /\ LET g == PosOf(K[row]) IN
           groups' = IF g = 0 THEN Append(groups, [key |-> K[row], rows |-> <<row>>])
                     ELSE [groups EXCEPT ![g].rows = Append(@, row)]
        /\ row' = row + 1 /\ UNCHANGED <<K, V>>
Next == Step
Spec == Init /\ [][Next]_vars

MachineIsDefinition == row = Len(K) + 1 => groups = Partition(K)
Laws == row = 1 =>
    LET P == Partition(K)  GK == GroupKeysP(P)  lp == J!LeftPairs(K, GK) IN
    /\ PartitionLaws(K)
    /\ Len(lp) = Len(K)
    /\ \A f \in Funs :
         LET W == WindowP(f, K, P, V)  A == AggregateP(f, P, V) IN
         (* C13: window = aggregate joined back to the rows on the partition key *)
         /\ W = [i \in 1..Len(K) |-> A[lp[i][2]]]
         (* rows of one group receive identical values *)
         /\ \A i, j \in 1..Len(K) : K[i] = K[j] => W[i] = W[j]
    (* empty-group conventions and None skipping *)
    /\ \A g \in 1..Len(P) :
         LET vals == GroupVals(V, P[g].rows) IN
           /\ Agg("count", vals)[1] = Cardinality({k \in 1..Len(vals) : ~IsNone(vals[k])})
           /\ (Clean(vals) = <<>>) => /\ Agg("sum", vals) = <<0, 1>> /\ Agg("count", vals) = <<0, 1>>
                                      /\ Agg("min", vals) = NoResult /\ Agg("mean", vals) = NoResult
=============================================================================
