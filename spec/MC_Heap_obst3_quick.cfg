SPECIFICATION Spec
CONSTANTS
  NObj = 2
  NTab = 1
  NSid = 4
  Devs = {}
  Acts = {"NewVec", "NewTable", "Rename", "RenameColumn", "Observe"}
  Lens = {0, 1}
  Vals = {0}
  NameSet = {"-", "a", "b"}
  MaxDepth = 8
  MaxCols = 1
  Emit = FALSE
  ObsV = {}
  ObsT = {"select", "names", "repr", "agg"}
VIEW View
CONSTRAINT Bound
INVARIANT InvRegistryExact
INVARIANT InvNoSpuriousRefusal
INVARIANT InvOwnership
INVARIANT InvRect
INVARIANT InvSharingJustified
INVARIANT InvFpCoherent
INVARIANT InvDtypeTruthful
INVARIANT InvSane
INVARIANT InvCmap
INVARIANT InvRefusalJustified
INVARIANT InvFpReadCurrent
INVARIANT InvLookupCurrent
ACTION_CONSTRAINT StepProps
CHECK_DEADLOCK FALSE
