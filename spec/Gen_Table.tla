--------------------------- MODULE Gen_Table ---------------------------
(* Case generator for the table-level clauses.
     "select"  names x requested name tuple -> column indices or error            (C07)
     "arith"   left names x right names / scalar -> result names or width error    (C05, C18)
     "tassign" column dtypes x addressed columns x value tags -> per-column outcome, atomic (C08) *)
EXTENDS SerifTable, TLC, Json
CONSTANTS Suite
VARIABLE c
NamesT == {"a", "b", NoNameT}
ArithNamesT == {"a", "A", "a ", "b", NoNameT}      \* incl. names that differ only by case / blanks: "equal" means equal STORED names
ColKindsT == {"int", "float", "str"}
ValTags == {"int", "float", "str", "none"}
Init ==
  \/ (Suite = "select" /\ \E w \in 1..3, k \in 1..2 : \E names \in [1..w -> NamesT], req \in [1..k -> {"a", "b", "zz"}] :
        c = [suite |-> "select", names |-> names, req |-> req, ok |-> SelectOk(names, req),
             idx |-> IF SelectOk(names, req) THEN SelectCols(names, req) ELSE <<>>])
  \/ (Suite = "arith" /\ \E lw \in 1..2, rw \in 0..2 : \E ln \in [1..lw -> ArithNamesT], rn \in [1..rw -> ArithNamesT] :
        c = [suite |-> "arith", lnames |-> ln, rnames |-> rn, scalar |-> rw = 0,
             ok |-> (rw = 0 \/ ArithOk(lw, rw)),
             names |-> IF rw = 0 THEN ArithNameScalar(ln) ELSE IF ArithOk(lw, rw) THEN ArithNames(ln, rn) ELSE <<>>])
  \/ (Suite = "tassign" /\ \E w \in 2..3 : \E kinds \in [1..w -> ColKindsT], nl \in [1..w -> BOOLEAN] :
        \E addressed \in {<<1>>, <<2>>, <<1, 2>>, <<2, 1>>} \cup (IF w = 3 THEN {<<1, 2, 3>>, <<3>>, <<1, 3>>} ELSE {}) :
        \E tags \in [1..Len(addressed) -> ValTags] :
          LET dts == [i \in 1..w |-> DType(kinds[i], nl[i])] IN
          c = [suite |-> "tassign", kinds |-> kinds, nullable |-> nl, addressed |-> addressed, tags |-> tags,
               outcomes |-> ColOutcomes(dts, addressed, tags), ok |-> TableAssignOk(dts, addressed, tags),
               rkinds |-> [i \in 1..w |-> NewColDtype(dts, addressed, tags, i).kind],
               rnullable |-> [i \in 1..w |-> NewColDtype(dts, addressed, tags, i).nullable]])
  \/ (Suite = "rename" /\ \E w \in 1..3, k \in 0..3, k2 \in 0..3 : \E names \in [1..w -> {"a", "b", "c"}] :
        \E olds \in [1..k -> {"a", "b", "zz"}], news \in [1..k2 -> {"a", "b", "n"}] :
        (k2 = k \/ (k2 = k + 1 /\ k <= 1)) /\
        c = [suite |-> "rename", names |-> names, olds |-> olds, news |-> news,
             ok |-> RenameOk(names, olds, news), result |-> RenameColumns(names, olds, news)])
Next == UNCHANGED c
Emit == PrintT(<<"CASE", ToJson(c)>>)
=============================================================================
