SPECIFICATION Spec
CONSTANTS
  NObj = 4
  NTab = 1
  NSid = 6
  Devs = {"TableFpMemo"}
  Acts = {"NewVec", "Copy", "Drop", "Write", "NewTable", "SetAttr", "ColView", "DropTable", "ReadFp", "ReadFpT"}
  Lens = {1}
  Vals = {0, 1}
  NameSet = {"-"}
  MaxDepth = 5
  MaxCols = 1
  Emit = FALSE
  ObsV = {}
  ObsT = {}
VIEW View
CONSTRAINT Bound
INVARIANT InvFpCoherent
CHECK_DEADLOCK FALSE
