INIT Init
NEXT Next
CONSTANTS
  Devs = {}
  MaxN = 4
  Bound = 6
INVARIANT SliceLaws
INVARIANT NaLaws
INVARIANT ElemLaws
CHECK_DEADLOCK FALSE
