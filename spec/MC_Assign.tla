--------------------------- MODULE MC_Assign ---------------------------
(* Atomicity of in-place assignment (C08) as a step machine shaped like Vector.__setitem__
   and Table.__setitem__, with a fault that can strike at any point where the supplied
   value is consumed or found invalid.

   Vector:  Plan   - consume the incoming items one by one into the pending update list
                     (item `fault` raises while being produced)
            Check  - validate every pending value: tag 0 fits, 1 needs promotion, 2 is incompatible
            Promote- convert the whole column (only after ALL values were accepted)
            Swap   - replace the storage once
   Table row assignment = one vector assignment per addressed column; the intended design
   validates all columns before touching any.

   Deviations: ValidateFirstOnly (stop examining at the first incompatible value),
               PromoteInLoop (promote when the first promotable value is met),
               PartialRowWrite (apply column by column).                                  *)
EXTENDS Integers, Sequences, FiniteSets, TLC
CONSTANTS MaxItems, ADevs

Tags == {0, 1, 2}            \* 0 fits the column, 1 wider-compatible, 2 incompatible
VARIABLES pc, items, fault, fcol, k, pending, kind, stored, col, ncols, written
vars == <<pc, items, fault, fcol, k, pending, kind, stored, col, ncols, written>>

(* kind: 0 = original, 1 = promoted;  stored: number of new values visible in the column *)
Init == /\ \E n \in 0..MaxItems : items \in [1..n -> Tags]
        /\ fault \in 0..(MaxItems + 1)             \* 0: no fault; j: producing item j raises
        /\ ncols \in 1..2 /\ fcol \in 1..ncols /\ col = 1 /\ written = {}     \* the fault strikes in column fcol
        /\ pc = "Plan" /\ k = 1 /\ pending = <<>> /\ kind = 0 /\ stored = 0

Fail == pc' = "Failed" /\ UNCHANGED <<items, fault, fcol, k, pending, kind, stored, col, ncols, written>>

Plan == /\ pc = "Plan"
        /\ IF k > Len(items) THEN pc' = "Check" /\ UNCHANGED <<items, fault, fcol, k, pending, kind, stored, col, ncols, written>>
           ELSE IF fault = k /\ fcol = col THEN Fail
           ELSE /\ pending' = Append(pending, items[k]) /\ k' = k + 1
                /\ kind' = (IF "PromoteInLoop" \in ADevs /\ items[k] = 1 THEN 1 ELSE kind)
                /\ UNCHANGED <<pc, items, fault, fcol, stored, col, ncols, written>>

Examined == IF "ValidateFirstOnly" \in ADevs
              THEN (IF \E j \in 1..Len(pending) : pending[j] # 0
                      THEN SubSeq(pending, 1, CHOOSE j \in 1..Len(pending) : pending[j] # 0 /\ \A i \in 1..(j - 1) : pending[i] = 0)
                      ELSE pending)
              ELSE pending
Check == /\ pc = "Check"
         /\ IF \E j \in 1..Len(Examined) : Examined[j] = 2 THEN Fail
            ELSE pc' = "Promote" /\ UNCHANGED <<items, fault, fcol, k, pending, kind, stored, col, ncols, written>>
Promote == /\ pc = "Promote"
           /\ kind' = (IF \E j \in 1..Len(Examined) : Examined[j] = 1 THEN 1 ELSE kind)
           /\ pc' = "Swap" /\ UNCHANGED <<items, fault, fcol, k, pending, stored, col, ncols, written>>
Swap == /\ pc = "Swap"
        /\ stored' = Len(pending)
        /\ written' = written \cup {col}
        /\ IF col < ncols /\ "PartialRowWrite" \in ADevs
             THEN pc' = "Plan" /\ col' = col + 1 /\ k' = 1 /\ pending' = <<>>      \* next column, one at a time
             ELSE pc' = "Done" /\ UNCHANGED <<col, k, pending>>
        /\ UNCHANGED <<items, fault, fcol, kind, ncols>>
Next == Plan \/ Check \/ Promote \/ Swap
Spec == Init /\ [][Next]_vars

(* a failed assignment leaves the object exactly as it was *)
Atomic == pc = "Failed" => kind = 0 /\ stored = 0 /\ written = {}
(* whatever is stored fits the (possibly promoted) column: the dtype does not lie *)
Truthful == pc = "Done" => \A j \in 1..Len(pending) : pending[j] = 0 \/ (pending[j] = 1 /\ kind = 1)
(* a fault-free assignment of acceptable values succeeds *)
Succeeds == (pc = "Failed" /\ fault = 0) => \E j \in 1..Len(items) : items[j] = 2
=============================================================================
