INIT Init
NEXT Next
CONSTANT Devs = {}
CHECK_DEADLOCK FALSE
