--------------------------- MODULE Gen_Misc ---------------------------
EXTENDS SerifMisc, TLC, Json
CONSTANTS Suite, MaxN
VARIABLE c
Cells == {NoneV, 0, 1, 2}
Nums == {0, 1, 2, 3}
Init ==
  \/ (Suite = "unique" /\ \E n \in 0..MaxN : \E v \in [1..n -> Cells] : c = [suite |-> "unique", vals |-> v, out |-> UniqueVals(v)])
  \/ (Suite = "argsort" /\ \E n \in 0..MaxN : \E v \in [1..n -> Nums] : c = [suite |-> "argsort", vals |-> v, out |-> ArgSort(v)])
  \/ (Suite = "dot" /\ \E n \in 0..3 : \E a \in [1..n -> Nums], b \in [1..n -> Nums] : c = [suite |-> "dot", a |-> a, b |-> b, out |-> <<Dot(a, b)>>])
  \/ (Suite = "matvec" /\ \E nr \in 1..2, nc \in 1..2 : \E M \in [1..nc -> [1..nr -> {0, 1, 2}]], v \in [1..nc -> {0, 1, 3}] :
        c = [suite |-> "matvec", M |-> M, v |-> v, out |-> MatVec(M, v, nr)])
  \/ (Suite = "sample" /\ \E n \in 0..12, k \in 0..13 : c = [suite |-> "sample", n |-> n, k |-> k, out |-> SampleIdx(n, k)])
  \/ (Suite = "transpose" /\ \E nr \in 1..3, nc \in 1..3 : \E M \in [1..nc -> [1..nr -> {NoneV, 0, 1}]] :
        c = [suite |-> "transpose", M |-> M, nr |-> nr, out |-> Transpose(M, nr)])
  \/ (Suite = "pluck" /\ \E n \in 1..2 : \E lens \in [1..n -> 0..3], isnone \in [1..n -> BOOLEAN], k \in (0 - 4)..3 :
        LET items == [i \in 1..n |-> [j \in 1..lens[i] |-> 10 * i + j]] IN
        c = [suite |-> "pluck", items |-> items, isnone |-> isnone, k |-> k, out |-> Pluck(items, isnone, k, 0 - 7)])
  \/ (Suite = "isinstance" /\ \E n \in 0..3 : \E tags \in [1..n -> {"int", "float", "str", "bool", "none"}] :
        \E T \in (SUBSET {"int", "float", "str", "bool", "none"}) \ {{}} : Cardinality(T) <= 2 /\
        c = [suite |-> "isinstance", tags |-> tags, T |-> T, out |-> IsInstance(tags, T)])
  \/ (Suite = "cast" /\ \E n \in 0..3 : \E v \in [1..n -> {NoneV, 0, 1}] :
        c = [suite |-> "cast", vals |-> v, nullable |-> CastNullable(v), nonepos |-> CastNonePos(v)])
  \/ (Suite = "tcompare" /\ \E nr \in 0..2, nc \in 1..2 : \E M \in [1..nc -> [1..nr -> {NoneV, 0, 1, 2}]] :
        \E op \in {"eq", "ne", "lt", "le", "gt", "ge"} : c = [suite |-> "tcompare", M |-> M, x |-> 1, op |-> op, out |-> TableCompare(M, 1, op)])
Next == UNCHANGED c
Emit == PrintT(<<"CASE", ToJson(c)>>)
Laws == /\ (c.suite = "unique" => /\ \A i, j \in 1..Len(c.out) : i # j => c.out[i] # c.out[j]
                                  /\ RangeOf(c.out) = RangeOf(c.vals))
        /\ (c.suite = "argsort" => /\ RangeOf(c.out) = 0..(Len(c.vals) - 1)
                                   /\ \A i \in 1..(Len(c.out) - 1) : c.vals[c.out[i] + 1] <= c.vals[c.out[i + 1] + 1])
        /\ (c.suite = "sample" => /\ \A i \in 1..Len(c.out) : c.out[i] >= 0 /\ c.out[i] < c.n
                                  /\ Len(c.out) <= c.k)
        /\ (c.suite = "transpose" => Transpose(c.out, Len(c.M)) = c.M)                      \* t.T.T = t
        /\ (c.suite = "pluck" => \A i \in 1..Len(c.out) : c.out[i] = 0 - 7 \/ c.out[i] \in RangeOf(c.items[i]))
        /\ (c.suite = "isinstance" => Len(c.out) = Len(c.tags))
        /\ (c.suite = "tcompare" => \A cc \in 1..Len(c.M) : \A r \in 1..Len(c.M[cc]) :
                (IsNone(c.M[cc][r]) => ~c.out[cc][r]) /\ (c.op = "eq" /\ ~IsNone(c.M[cc][r]) => (c.out[cc][r] <=> c.M[cc][r] = c.x)))
=============================================================================
