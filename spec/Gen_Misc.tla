--------------------------- MODULE Gen_Misc ---------------------------
EXTENDS SerifMisc, TLC, Json
CONSTANTS Suite, MaxN
VARIABLE c
Cells == {NoneV, 0, 1, 2}
Nums == {0, 1, 2, 3}
Init ==
  \/ (Suite = "unique" /\ \E n \in 0..MaxN : \E v \in [1..n -> Cells] : c = [suite |-> "unique", vals |-> v, out |-> UniqueVals(v)])
  \/ (Suite = "argsort" /\ \E n \in 0..MaxN : \E v \in [1..n -> Nums] : c = [suite |-> "argsort", vals |-> v, out |-> ArgSort(v)])
  \/ (Suite = "dot" /\ \E n \in 0..3 : \E a \in [1..n -> Nums], b \in [1..n -> Nums] : c = [suite |-> "dot", a |-> a, b |-> b, out |-> <<Dot(a, b)>>])
  \/ (Suite = "matvec" /\ \E nr \in 1..2, nc \in 1..2 : \E M \in [1..nc -> [1..nr -> {0, 1, 2}]], v \in [1..nc -> {0, 1, 3}] :
        c = [suite |-> "matvec", M |-> M, v |-> v, out |-> MatVec(M, v, nr)])
  \/ (Suite = "sample" /\ \E n \in 0..12, k \in 0..13 : c = [suite |-> "sample", n |-> n, k |-> k, out |-> SampleIdx(n, k)])
Next == UNCHANGED c
Emit == PrintT(<<"CASE", ToJson(c)>>)
Laws == /\ (c.suite = "unique" => /\ \A i, j \in 1..Len(c.out) : i # j => c.out[i] # c.out[j]
                                  /\ RangeOf(c.out) = RangeOf(c.vals))
        /\ (c.suite = "argsort" => /\ RangeOf(c.out) = 0..(Len(c.vals) - 1)
                                   /\ \A i \in 1..(Len(c.out) - 1) : c.vals[c.out[i] + 1] <= c.vals[c.out[i + 1] + 1])
        /\ (c.suite = "sample" => /\ \A i \in 1..Len(c.out) : c.out[i] >= 0 /\ c.out[i] < c.n
                                  /\ Len(c.out) <= c.k)
=============================================================================
