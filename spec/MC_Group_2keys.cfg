SPECIFICATION Spec
CONSTANTS
  MaxRows = 3
  NKeys = 2
INVARIANT MachineIsDefinition
INVARIANT Laws
CHECK_DEADLOCK FALSE
