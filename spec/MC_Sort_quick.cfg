SPECIFICATION Spec
CONSTANTS
  SortDevs = {}
  MaxRows = 3
  NKeys = 2
INVARIANT MultiPassIsDefinition
INVARIANT Laws
CHECK_DEADLOCK FALSE
