--------------------------- MODULE MC_JoinLaws ---------------------------
(* The algebraic laws of C09 / C10 over every pair of key tables in scope (no machine). *)
EXTENDS SerifJoin, TLC
CONSTANTS MaxRows, NKeys
KeyDom == {NoneV, 1, 2}
KeyTuples == [1..NKeys -> KeyDom]
KeyTables == SeqsUpTo(KeyTuples, MaxRows)
VARIABLES LK, RK
Init == LK \in KeyTables /\ RK \in KeyTables
Next == UNCHANGED <<LK, RK>>
Laws == /\ CountLaw(LK, RK) /\ Containment(LK, RK)
        /\ EveryRowAppears(LK, RK) /\ FullSymmetric(LK, RK)
        /\ LeftMajor(InnerPairs(LK, RK)) /\ LeftMajor(LeftPairs(LK, RK))
=============================================================================
