--------------------------- MODULE Gen_Repr ---------------------------
EXTENDS SerifRepr, TLC, Json
CONSTANTS Limits, MaxCols
VARIABLE c
Init == \E limit \in Limits : \E n \in 0..(2 * limit + 3), ncols \in 0..MaxCols :
          c = [n |-> n, limit |-> limit, ncols |-> ncols, rows |-> ShownRows(n, limit),
               cols |-> ShownCols(ncols), truncated |-> Truncated(n, limit)]
Next == UNCHANGED c
Emit == PrintT(<<"CASE", ToJson(c)>>)
Laws == LayoutLaws(c.n, c.limit)
=============================================================================
