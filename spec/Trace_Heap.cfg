INIT Init
NEXT Next
CONSTANTS
  NObj = 6
  NTab = 2
  NSid = 12
  Devs = {}
INVARIANT Finished
CHECK_DEADLOCK FALSE
