--------------------------- MODULE Trace_Group ---------------------------
(* Trace validator for aggregate / window / whole-column reductions of the real library.
     aggregate : K, V, keys (result key tuples), funs, out (per fun: rationals per group), calls
     window    : K, V, wkeys (key tuples per output row), funs, out (per fun: rationals per row)
     reduce    : V, funs, out (per fun one rational)  - Vector.sum()/mean()/... on a column
   Rationals are <<num, den>>, den = 0 meaning None; compared by cross-multiplication.     *)
EXTENDS SerifGroup, TLC, Json, IOUtils
Trace == ndJsonDeserialize(IOEnv.TRACE_FILE)

RatEq(a, b) == IF a[2] = 0 \/ b[2] = 0 THEN a[2] = b[2] ELSE a[1] * b[2] = b[1] * a[2]
RatSeqEq(s, t) == Len(s) = Len(t) /\ \A i \in 1..Len(s) : RatEq(s[i], t[i])

Verdict(e) ==
    CASE e.op = "aggregate" ->
           LET P == Partition(e.K) IN
           IF e.keys # GroupKeysP(P) THEN "group_keys"
           ELSE IF \E k \in 1..Len(e.funs) : ~RatSeqEq(e.out[k], AggregateP(e.funs[k], P, e.V)) THEN "agg_value"
           ELSE IF ~e.nocalls /\ e.calls # ApplyCallsP(P, e.V) THEN "apply_calls"
           ELSE "ok"
      [] e.op = "window" ->
           LET P == Partition(e.K) IN
           IF Len(e.wkeys) # Len(e.K) THEN "window_rows"
           ELSE IF e.wkeys # e.K THEN "window_keys"
           ELSE IF \E k \in 1..Len(e.funs) : ~RatSeqEq(e.out[k], WindowP(e.funs[k], e.K, P, e.V)) THEN "window_value"
           ELSE "ok"
      [] e.op = "reduce" ->
           IF \E k \in 1..Len(e.funs) : ~RatEq(e.out[k], Agg(e.funs[k], e.V)) THEN "reduce_value" ELSE "ok"
      [] OTHER -> "unknown_op"
Bad == {<<Trace[i].id, Verdict(Trace[i])>> : i \in {j \in 1..Len(Trace) : Verdict(Trace[j]) # "ok"}}
VARIABLE done
Init == done = FALSE
Next == done = FALSE /\ done' = TRUE /\ PrintT(<<"VERDICT", ToJson([n |-> Len(Trace), bad |-> Bad])>>)
=============================================================================
