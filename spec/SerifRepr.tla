--------------------------- MODULE SerifRepr ---------------------------
(* Layout contract of repr() (src/serif/display.py), written from C20: which rows and
   columns are shown, where the ellipsis goes, what the footer counts.  How a value is
   formatted is left to the implementation ("does not raise").                          *)
EXTENDS Integers, Sequences, FiniteSets

ColBudget == 5                          \* first 5 + last 5 columns of a wide table
Half(limit) == limit \div 2
Truncated(n, limit) == n > 2 * Half(limit)
(* 0-based row indices shown, with -1 standing for the ellipsis line *)
ShownRows(n, limit) ==
    LET h == Half(limit) IN
    IF Truncated(n, limit)
      THEN [i \in 1..h |-> i - 1] \o <<0 - 1>> \o [i \in 1..h |-> n - h + i - 1]
      ELSE [i \in 1..n |-> i - 1]
BodyLines(n, limit) == Len(ShownRows(n, limit))
WideTable(ncols) == ncols > 2 * ColBudget
ShownCols(ncols) ==
    IF WideTable(ncols)
      THEN [i \in 1..ColBudget |-> i - 1] \o <<0 - 1>> \o [i \in 1..ColBudget |-> ncols - ColBudget + i - 1]
      ELSE [i \in 1..ncols |-> i - 1]

(* laws *)
LayoutLaws(n, limit) ==
    LET s == ShownRows(n, limit)  real == {k \in 1..Len(s) : s[k] >= 0} IN
    /\ \A k \in real : s[k] < n                                                   \* only real rows
    /\ \A j, k \in real : j # k => s[j] # s[k]                                     \* nothing shown twice
    /\ \A j, k \in real : j < k => s[j] < s[k]                                     \* in order
    /\ (~Truncated(n, limit) => Len(s) = n)                                         \* short data: every row
    /\ (Truncated(n, limit) => Cardinality(real) = 2 * Half(limit) /\ Cardinality(real) < n)
=============================================================================
