--------------------------- MODULE SerifJoin ---------------------------
(* Joins of serif.Table (src/serif/table.py inner_join / join / full_join).
   LK, RK are the sequences of key tuples of the left / right rows (None is an ordinary
   key value).  A join result is the sequence of row pairs <<i, j>> (NoRow = padded side);
   the output row of a pair is the left row's cells followed by the right row's cells,
   None on a padded side (OutRow).  Written from the statements of C09, C10, C11.        *)
EXTENDS SerifBase

CONSTANT JoinDevs

Matches(LK, RK, i) == SelectSeq(Idx(RK), LAMBDA j : LK[i] = RK[j])

InnerPairs(LK, RK) ==
    FlattenSeq([i \in 1..Len(LK) |-> [k \in 1..Len(Matches(LK, RK, i)) |-> <<i, Matches(LK, RK, i)[k]>>]])

LeftPairs(LK, RK) ==
    FlattenSeq([i \in 1..Len(LK) |->
        IF Matches(LK, RK, i) = <<>> THEN << <<i, NoRow>> >>
        ELSE [k \in 1..Len(Matches(LK, RK, i)) |-> <<i, Matches(LK, RK, i)[k]>>]])

Unmatched(LK, RK) == SelectSeq(Idx(RK), LAMBDA j : \A i \in 1..Len(LK) : LK[i] # RK[j])

FullPairs(LK, RK) ==
    LeftPairs(LK, RK) \o [k \in 1..Len(Unmatched(LK, RK)) |-> <<NoRow, Unmatched(LK, RK)[k]>>]

Pairs(kind, LK, RK) == CASE kind = "inner" -> InnerPairs(LK, RK)
                         [] kind = "left"  -> LeftPairs(LK, RK)
                         [] kind = "full"  -> FullPairs(LK, RK)

(* ---- cardinality expectations (C11) ---- *)
ValidExpect == {"one_to_one", "many_to_one", "one_to_many", "many_to_many"}
Unique(K) == \A i, j \in 1..Len(K) : K[i] = K[j] => i = j
NeedL(e) == e \in {"one_to_one", "one_to_many"}
NeedR(e) == e \in {"one_to_one", "many_to_one"}

Outcome(kind, e, LK, RK) ==
    IF e \notin ValidExpect THEN [ok |-> FALSE, pairs |-> <<>>]
    ELSE IF (NeedL(e) /\ ~Unique(LK)) \/ (NeedR(e) /\ ~Unique(RK)) THEN [ok |-> FALSE, pairs |-> <<>>]
    ELSE [ok |-> TRUE, pairs |-> Pairs(kind, LK, RK)]

(* ---- output rows ---- *)
Nones(n) == [c \in 1..n |-> NoneV]
OutRow(LT, RT, lw, rw, p) ==
    (IF p[1] = NoRow THEN Nones(lw) ELSE LT[p[1]]) \o (IF p[2] = NoRow THEN Nones(rw) ELSE RT[p[2]])
OutRows(LT, RT, lw, rw, ps) == [k \in 1..Len(ps) |-> OutRow(LT, RT, lw, rw, ps[k])]

(* ---- laws stated in C09 / C10 ---- *)
CountLaw(LK, RK) ==
    Len(InnerPairs(LK, RK)) =
      FoldSeq(LAMBDA i, acc : acc + Len(Matches(LK, RK, i)), 0, Idx(LK))
Containment(LK, RK) ==
    /\ InnerPairs(LK, RK) = SelectSeq(LeftPairs(LK, RK), LAMBDA p : p[2] # NoRow)
    /\ LeftPairs(LK, RK)  = SelectSeq(FullPairs(LK, RK), LAMBDA p : p[1] # NoRow)
EveryRowAppears(LK, RK) ==
    /\ \A i \in 1..Len(LK) : \E p \in RangeOf(LeftPairs(LK, RK)) : p[1] = i
    /\ \A i \in 1..Len(LK) : \E p \in RangeOf(FullPairs(LK, RK)) : p[1] = i
    /\ \A j \in 1..Len(RK) : \E p \in RangeOf(FullPairs(LK, RK)) : p[2] = j
FullSymmetric(LK, RK) ==
    /\ Len(FullPairs(LK, RK)) = Len(FullPairs(RK, LK))
    /\ RangeOf(FullPairs(LK, RK)) = {<<p[2], p[1]>> : p \in RangeOf(FullPairs(RK, LK))}
LeftMajor(ps) == \A a, b \in 1..Len(ps) :
    (a < b /\ ps[a][1] # NoRow /\ ps[b][1] # NoRow) =>
        (ps[a][1] < ps[b][1] \/ (ps[a][1] = ps[b][1] /\ ps[a][2] < ps[b][2]))

(* ---- which side the implementation checks inside the probe loop ---- *)
ChecksLeftInLoop(kind, e) ==
    IF "LeftJoinWrongSide" \in JoinDevs /\ kind = "left"
      THEN e \in {"one_to_one", "many_to_one"}       \* what join() did: tests the right-side words
      ELSE NeedL(e)
=============================================================================
