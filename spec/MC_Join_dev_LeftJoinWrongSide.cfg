SPECIFICATION Spec
CONSTANTS
  JoinDevs = {"LeftJoinWrongSide"}
  MaxRows = 2
  NKeys = 1
  Expects = {"one_to_one", "many_to_one", "one_to_many", "many_to_many"}
INVARIANT MachineIsDefinition
CHECK_DEADLOCK FALSE
