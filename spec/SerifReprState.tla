--------------------------- MODULE SerifReprState ---------------------------
(* The preview limit of repr() is STATE: one module-level setting (serif.set_repr_rows), one optional override per
   table (t._repr_rows), and summaries (t.peek()) that carry an override of their own.  C20 speaks about "the preview
   limit"; this module says which limit is in force at every moment of a history of settings and printings, and that
   printing is an observation: it changes no setting.

   One action per public step (src/serif/display.py set_repr_rows, _repr_vector, _repr_table; table.py peek):
     SetGlobal(n)     serif.set_repr_rows(n)
     ResetGlobal      serif.set_repr_rows(None)        -> the documented library default
     SetTable(t, n)   t._repr_rows = n
     ClearTable(t)    t._repr_rows = None
     PrintVec(v)      repr(v)                           -> rows shown under the global limit
     PrintTable(t)    repr(t)                           -> rows shown under the table's override, else the global limit
     PrintPeek(t)     repr(t.peek())                    -> a summary with its own (large) limit; no setting changes
   Deviations (each must be reported violated by TLC):
     ResetKeepsCurrent   None falls back to the current setting instead of the default   (seeded C20j2)
     PeekLeaks           printing a summary installs its limit as the global one          (seeded C20i1)
     OverrideSticks      clearing a table's override is ignored                                                   *)
EXTENDS SerifRepr, TLC

CONSTANTS Limits,            \* limits a caller sets
          Default,           \* the documented library default (12)
          Vecs, Tabs,        \* object ids
          Rows,              \* [Vecs \cup Tabs -> Nat]  number of rows of each object
          PeekLimit,         \* the override a summary carries (200)
          Deviation          \* "none" or one of the names above

Unset == 0 - 1

VARIABLES glob,              \* the module-level setting
          want,              \* ghost: what the caller last asked for (a limit, or Unset after a reset / at start)
          tab,               \* [Tabs -> Limits \cup {Unset}] per-table override
          twant,             \* ghost: what the caller last asked for, per table
          last               \* the last observation: [kind, obj, rows] or the empty record at start
vars == <<glob, want, tab, twant, last>>

Init == /\ glob = Default /\ want = Unset
        /\ tab = [t \in Tabs |-> Unset] /\ twant = [t \in Tabs |-> Unset]
        /\ last = [kind |-> "none", obj |-> "-", rows |-> <<>>, limit |-> Unset]

Eff(t) == IF tab[t] = Unset THEN glob ELSE tab[t]

SetGlobal(n) == /\ glob' = n /\ want' = n
                /\ last' = [kind |-> "set", obj |-> "-", rows |-> <<>>, limit |-> n]
                /\ UNCHANGED <<tab, twant>>
ResetGlobal  == /\ glob' = IF Deviation = "ResetKeepsCurrent" THEN glob ELSE Default
                /\ want' = Unset
                /\ last' = [kind |-> "reset", obj |-> "-", rows |-> <<>>, limit |-> Unset]
                /\ UNCHANGED <<tab, twant>>
SetTable(t, n) == /\ tab' = [tab EXCEPT ![t] = n] /\ twant' = [twant EXCEPT ![t] = n]
                  /\ last' = [kind |-> "tset", obj |-> t, rows |-> <<>>, limit |-> n]
                  /\ UNCHANGED <<glob, want>>
ClearTable(t) == /\ tab' = IF Deviation = "OverrideSticks" THEN tab ELSE [tab EXCEPT ![t] = Unset]
                 /\ twant' = [twant EXCEPT ![t] = Unset]
                 /\ last' = [kind |-> "tclear", obj |-> t, rows |-> <<>>, limit |-> Unset]
                 /\ UNCHANGED <<glob, want>>
PrintVec(v) == /\ last' = [kind |-> "vprint", obj |-> v, rows |-> ShownRows(Rows[v], glob), limit |-> glob]
               /\ UNCHANGED <<glob, want, tab, twant>>
PrintTable(t) == /\ last' = [kind |-> "tprint", obj |-> t, rows |-> ShownRows(Rows[t], Eff(t)), limit |-> Eff(t)]
                 /\ UNCHANGED <<glob, want, tab, twant>>
PrintPeek(t) == /\ last' = [kind |-> "peek", obj |-> t, rows |-> <<>>, limit |-> PeekLimit]
                /\ glob' = IF Deviation = "PeekLeaks" THEN PeekLimit ELSE glob
                /\ UNCHANGED <<want, tab, twant>>

Next == \/ \E n \in Limits : SetGlobal(n)
        \/ ResetGlobal
        \/ \E t \in Tabs, n \in Limits : SetTable(t, n)
        \/ \E t \in Tabs : ClearTable(t)
        \/ \E v \in Vecs : PrintVec(v)
        \/ \E t \in Tabs : PrintTable(t)
        \/ \E t \in Tabs : PrintPeek(t)
Spec == Init /\ [][Next]_vars

(* ---- properties ---- *)
TypeOK == /\ glob \in Limits \cup {Default, PeekLimit}
          /\ tab \in [Tabs -> Limits \cup {Unset}]
(* the limit in force is the one the caller last asked for; a reset asks for the documented default *)
GlobalIsAsked == glob = IF want = Unset THEN Default ELSE want
TableIsAsked  == \A t \in Tabs : tab[t] = twant[t]
(* what a printing shows is the layout of C20 under the limit in force: first and last rows around an ellipsis when
   the data are longer than the limit, every row otherwise *)
ShownIsLayout ==
    /\ (last.kind = "vprint" => /\ last.limit = (IF want = Unset THEN Default ELSE want)
                                /\ last.rows = ShownRows(Rows[last.obj], last.limit)
                                /\ LayoutLaws(Rows[last.obj], last.limit))
    /\ (last.kind = "tprint" => /\ last.limit = (IF twant[last.obj] # Unset THEN twant[last.obj]
                                                 ELSE IF want = Unset THEN Default ELSE want)
                                /\ last.rows = ShownRows(Rows[last.obj], last.limit)
                                /\ LayoutLaws(Rows[last.obj], last.limit))
(* printing is an observation: no setting changes (action property) *)
IsPrint == last'.kind \in {"vprint", "tprint", "peek"}
PrintingChangesNothing == [][IsPrint => UNCHANGED <<glob, tab>>]_vars
(* a table's override touches no other table and not the global setting *)
OverridesAreLocal == [][\A t \in Tabs : (last'.kind \in {"tset", "tclear"} /\ last'.obj = t)
                          => (glob' = glob /\ \A u \in Tabs \ {t} : tab'[u] = tab[u])]_vars
=============================================================================
