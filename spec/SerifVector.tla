--------------------------- MODULE SerifVector ---------------------------
(* Vector-level operators of serif (src/serif/vector.py), written from the statements of
   C05 (elementwise), C06 (None), C07 (indexing), C08 (assignment).
   A vector's contents is a sequence of abstract cells (ints, NoneV = None).  Positions
   produced by the indexing operators are 0-based, like Python's.                        *)
EXTENDS SerifBase, SerifTypes

NoneI == 99                      \* "absent" slice component (start/stop/step is None)

(* ------------------------------------------------------------------ C07: slices *)
SStep(st) == IF st = NoneI THEN 1 ELSE st
Clamp(x, lo, hi) == IF x < lo THEN lo ELSE IF x > hi THEN hi ELSE x
SStart(n, s, st) ==
    IF SStep(st) > 0 THEN (IF s = NoneI THEN 0     ELSE Clamp(IF s < 0 THEN s + n ELSE s, 0, n))
                     ELSE (IF s = NoneI THEN n - 1 ELSE Clamp(IF s < 0 THEN s + n ELSE s, 0 - 1, n - 1))
SStop(n, e, st) ==
    IF SStep(st) > 0 THEN (IF e = NoneI THEN n     ELSE Clamp(IF e < 0 THEN e + n ELSE e, 0, n))
                     ELSE (IF e = NoneI THEN 0 - 1 ELSE Clamp(IF e < 0 THEN e + n ELSE e, 0 - 1, n - 1))
SCount(n, s, e, st) ==
    LET a == SStart(n, s, st)  b == SStop(n, e, st)  k == SStep(st) IN
    IF k > 0 THEN (IF b > a THEN (b - a + k - 1) \div k ELSE 0)
             ELSE (IF a > b THEN (a - b - k - 1) \div (0 - k) ELSE 0)
(* positions (0-based) selected by slice(s, e, st) on a sequence of length n *)
SliceIdx(n, s, e, st) == [i \in 1..SCount(n, s, e, st) |-> SStart(n, s, st) + (i - 1) * SStep(st)]

(* the filter definition the closed form must agree with *)
SliceSet(n, s, e, st) ==
    LET a == SStart(n, s, st)  b == SStop(n, e, st)  k == SStep(st) IN
    {p \in 0..(n - 1) : \E j \in 0..n : p = a + j * k /\ (IF k > 0 THEN p < b ELSE p > b)}

(* v[i] : position or "index error" (-1) *)
IntIdx(n, i) == IF i >= 0 /\ i < n THEN i ELSE IF i < 0 /\ i >= 0 - n THEN i + n ELSE 0 - 1
(* v[mask] : positions where the mask is TRUE, ascending; wrong length is an error *)
MaskOk(n, mask) == Len(mask) = n
MaskIdx(mask) == LET pos == SelectSeq(Idx(mask), LAMBDA i : mask[i]) IN [k \in 1..Len(pos) |-> pos[k] - 1]
Take(vals, idx) == [k \in 1..Len(idx) |-> vals[idx[k] + 1]]

(* ------------------------------------------------------------------ C05 / C06: elementwise *)
(* operand forms: "vv" vector o vector, "vs" vector o scalar, "vl" vector o list,
                  "sv" scalar o vector (reflected), "lv" list o vector (reflected)
   An elementwise result is "err" (lengths differ) or a sequence whose i-th element is
   NoneV (None propagates) or the pair <<x, y>> = the operands of Python's scalar operation
   IN THE WRITTEN ORDER, each given as <<side, position>> (side 1 = written left).        *)
VectorModes == {"vv", "vl", "lv"}
Modes == {"vv", "vs", "vl", "sv", "lv"}
ElementwiseOk(mode, la, lb) == mode \in VectorModes => la = lb
(* na / nb: sets of (1-based) None positions in the written-left / written-right operand;
   a scalar operand has length 1 and is never None in this model                            *)
Elementwise(mode, la, lb, na, nb) ==
    LET n == IF mode = "sv" THEN lb ELSE la IN
    [i \in 1..n |->
        LET li == IF mode = "sv" THEN 1 ELSE i
            ri == IF mode = "vs" THEN 1 ELSE i IN
        IF (mode # "sv" /\ li \in na) \/ (mode # "vs" /\ ri \in nb) THEN <<0, 0>> ELSE <<li, ri>>]
(* unary: None stays None, everything else gets the operation *)
Unary(la, na) == [i \in 1..la |-> i \notin na]

(* comparisons: FALSE wherever an operand is None; never None; result dtype bool, non-nullable *)
CompareMask(mode, la, lb, na, nb) ==
    [i \in 1..(IF mode = "sv" THEN lb ELSE la) |-> Elementwise(mode, la, lb, na, nb)[i] # <<0, 0>>]

(* ------------------------------------------------------------------ C06: isna / dropna / fillna *)
IsNa(vals) == [i \in 1..Len(vals) |-> IsNone(vals[i])]
DropNa(vals) == SelectSeq(vals, LAMBDA v : ~IsNone(v))
FillNa(vals, x) == [i \in 1..Len(vals) |-> IF IsNone(vals[i]) THEN x ELSE vals[i]]

(* ------------------------------------------------------------------ C08: assignment *)
ErrPos == <<0 - 9>>            \* "bad key" (no valid position list contains a negative position)
(* positions addressed by a key; ErrPos for a bad key.  Key forms:
     <<"int", i>>, <<"slice", s, e, st>>, <<"mask", m>>, <<"list", seq of ints>>          *)
KeyPositions(n, key) ==
    CASE key[1] = "int"   -> IF IntIdx(n, key[2]) < 0 THEN ErrPos ELSE <<IntIdx(n, key[2])>>
      [] key[1] = "slice" -> SliceIdx(n, key[2], key[3], key[4])
      [] key[1] = "mask"  -> IF MaskOk(n, key[2]) THEN MaskIdx(key[2]) ELSE ErrPos
      [] key[1] = "list"  -> IF \E k \in 1..Len(key[2]) : IntIdx(n, key[2][k]) < 0 THEN ErrPos
                             ELSE [k \in 1..Len(key[2]) |-> IntIdx(n, key[2][k])]
IsErr(p) == p = ErrPos

(* what Python list assignment leaves behind (later duplicates win):  value form
     <<"scalar", x>> or <<"seq", xs>> (must have exactly one item per addressed position)  *)
RECURSIVE ApplyUpdates(_, _, _, _)
ApplyUpdates(vals, pos, xs, k) ==
    IF k > Len(pos) THEN vals ELSE ApplyUpdates([vals EXCEPT ![pos[k] + 1] = xs[k]], pos, xs, k + 1)
Incoming(pos, value) == IF value[1] = "scalar" THEN [k \in 1..Len(pos) |-> value[2]] ELSE value[2]
AssignShapeOk(pos, value) == ~IsErr(pos) /\ (value[1] = "seq" => Len(value[2]) = Len(pos))
AssignContents(vals, pos, value) == ApplyUpdates(vals, pos, Incoming(pos, value), 1)

(* typing of an assignment: tags of ALL incoming values decide; any rejected value rejects the
   whole assignment (nothing changes); otherwise the dtype is promoted by every value          *)
RECURSIVE PromoteAll(_, _, _)
PromoteAll(dt, tags, k) == IF k > Len(tags) THEN dt ELSE PromoteAll(Promote(dt, tags[k]), tags, k + 1)
AssignTypeOutcome(dt, tags) ==
    IF \E k \in 1..Len(tags) : AssignOutcome(dt, tags[k]) = "reject" THEN "reject"
    ELSE IF \A k \in 1..Len(tags) : AssignOutcome(dt, tags[k]) = "keep" THEN "keep" ELSE "promote"
=============================================================================
