SPECIFICATION Spec
CONSTANTS
  NObj = 4
  NTab = 1
  NSid = 5
  Devs = {}
  Acts = {"RawCopy", "WriteNone", "ConcatEmpty", "NewVec", "ShareVec", "Copy", "Drop", "Write", "ReadFp", "Promote"}
  Lens = {1, 2}
  Vals = {0, 1}
  NameSet = {"-"}
  MaxDepth = 6
  MaxCols = 1
  Emit = FALSE
  ObsV = {}
  ObsT = {}
VIEW View
CONSTRAINT Bound
INVARIANT InvRegistryExact
INVARIANT InvNoSpuriousRefusal
INVARIANT InvOwnership
INVARIANT InvRect
INVARIANT InvSharingJustified
INVARIANT InvFpCoherent
INVARIANT InvDtypeTruthful
INVARIANT InvSane
INVARIANT InvCmap
INVARIANT InvRefusalJustified
INVARIANT InvFpReadCurrent
INVARIANT InvLookupCurrent
ACTION_CONSTRAINT StepProps
CHECK_DEADLOCK FALSE
