SPECIFICATION Spec
CONSTANTS
  MaxItems = 3
  ADevs = {"PartialRowWrite"}
INVARIANT Atomic
INVARIANT Truthful
INVARIANT Succeeds
CHECK_DEADLOCK FALSE
