--------------------------- MODULE Gen_Csv ---------------------------
(* Case generator for C19: every grid with a header of width W and up to MaxRec data records
   of every length 0..W over the cell classes, with and without header.                   *)
EXTENDS SerifCsv, TLC, Json
CONSTANTS W, MaxRec, Classes
VARIABLE c
Records == UNION {[1..l -> Classes] : l \in 0..W}
Headers == [1..W -> {"text"}]
Init == \E n \in 0..MaxRec : \E data \in [1..n -> Records], hh \in BOOLEAN :
          /\ (IF hh THEN TRUE ELSE IF n = 0 THEN TRUE ELSE Len(data[1]) = W)   \* header-less: the first record fixes the width
          /\ LET recs == IF hh THEN <<[i \in 1..W |-> "text"]>> \o data ELSE data IN
             c = [records |-> recs, header |-> hh, exp |-> ReadGrid(recs, hh)]
Next == UNCHANGED c
Emit == PrintT(<<"CASE", ToJson(c)>>)
ShapeLaws == LET e == c.exp IN
    /\ (c.records # <<>> => e.ncols = Len(c.records[1]))
    /\ e.nrows = (IF c.records = <<>> THEN 0 ELSE IF c.header THEN Len(c.records) - 1 ELSE Len(c.records))
    /\ \A k \in 1..e.ncols : Len(e.cells[k]) = e.nrows
=============================================================================
