SPECIFICATION Spec
CONSTANTS
  MaxItems = 3
  ADevs = {"PromoteInLoop"}
INVARIANT Atomic
INVARIANT Truthful
INVARIANT Succeeds
CHECK_DEADLOCK FALSE
