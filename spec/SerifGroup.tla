--------------------------- MODULE SerifGroup ---------------------------
(* Group-by aggregation and window functions (Table.aggregate / Table.window).
   K = key tuple of every row, V = the aggregated column's value of every row (-1 = None).
   Written from C12 / C13.  mean and stdev are returned as exact rationals <<num, den>>
   (den = 0 encodes "None"); the bindings evaluate / compare them numerically.            *)
EXTENDS SerifBase

FirstRows(K) == SelectSeq(Idx(K), LAMBDA i : \A j \in 1..(i - 1) : K[j] # K[i])
RowsOf(K, key) == SelectSeq(Idx(K), LAMBDA i : K[i] = key)
(* groups in order of first appearance: <<key, rows>> *)
Partition(K) == LET fr == FirstRows(K) IN
                [g \in 1..Len(fr) |-> [key |-> K[fr[g]], rows |-> RowsOf(K, K[fr[g]])]]

GroupVals(V, rows) == [k \in 1..Len(rows) |-> V[rows[k]]]            \* what apply() receives
Clean(vals) == SelectSeq(vals, LAMBDA v : ~IsNone(v))                \* non-None values, row order

SumOf(s) == FoldSeq(LAMBDA v, acc : acc + v, 0, s)
SqSumOf(s) == FoldSeq(LAMBDA v, acc : acc + v * v, 0, s)
MinOf(s) == CHOOSE m \in RangeOf(s) : \A v \in RangeOf(s) : m <= v
MaxOf(s) == CHOOSE m \in RangeOf(s) : \A v \in RangeOf(s) : m >= v

NoResult == <<0, 0>>          \* rational with den 0 = None
(* every aggregate as a rational <<num, den>>;  integers have den 1 *)
Agg(f, vals) ==
    LET c == Clean(vals)  n == Len(c) IN
    CASE f = "sum"   -> <<SumOf(c), 1>>
      [] f = "count" -> <<n, 1>>
      [] f = "min"   -> IF n = 0 THEN NoResult ELSE <<MinOf(c), 1>>
      [] f = "max"   -> IF n = 0 THEN NoResult ELSE <<MaxOf(c), 1>>
      [] f = "mean"  -> IF n = 0 THEN NoResult ELSE <<SumOf(c), n>>
      [] f = "var"   -> IF n < 2 THEN NoResult                 \* stdev^2 (sample variance)
                        ELSE <<n * SqSumOf(c) - SumOf(c) * SumOf(c), n * (n - 1)>>
Funs == {"sum", "count", "min", "max", "mean", "var"}

(* the P-parameterised forms avoid recomputing the partition (TLC does not memoise) *)
AggregateP(f, P, V) == [g \in 1..Len(P) |-> Agg(f, GroupVals(V, P[g].rows))]
GroupKeysP(P) == [g \in 1..Len(P) |-> P[g].key]
ApplyCallsP(P, V) == [g \in 1..Len(P) |-> GroupVals(V, P[g].rows)]
GroupIndexOfP(P, key) == CHOOSE g \in 1..Len(P) : P[g].key = key
WindowP(f, K, P, V) == LET A == AggregateP(f, P, V) IN [i \in 1..Len(K) |-> A[GroupIndexOfP(P, K[i])]]

Aggregate(f, K, V) == AggregateP(f, Partition(K), V)
GroupKeys(K) == GroupKeysP(Partition(K))
ApplyCalls(K, V) == ApplyCallsP(Partition(K), V)
(* window: every row gets its group's value *)
Window(f, K, V) == WindowP(f, K, Partition(K), V)

(* ---- laws ---- *)
PartitionLaws(K) ==
    LET P == Partition(K) IN
    /\ \A g, h \in 1..Len(P) : g # h => P[g].key # P[h].key                       \* one row per key
    /\ \A i \in 1..Len(K) : \E g \in 1..Len(P) : i \in RangeOf(P[g].rows)         \* every row in a group
    /\ \A g, h \in 1..Len(P) : g < h => P[g].rows[1] < P[h].rows[1]               \* first-appearance order
    /\ \A g \in 1..Len(P) : \A a, b \in 1..Len(P[g].rows) : a < b => P[g].rows[a] < P[g].rows[b]
    /\ FoldSeq(LAMBDA g, acc : acc + Len(P[g].rows), 0, Idx(P)) = Len(K)
=============================================================================
