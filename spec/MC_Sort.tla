--------------------------- MODULE MC_Sort ---------------------------
(* The multi-pass algorithm of Table.sort_by as a machine: for key columns last -> first,
   one stable single-key pass (list.sort with key (flag, value) and reverse).
   Checked against the definitional stable permutation for every input in scope.         *)
EXTENDS SerifSort, TLC
CONSTANTS MaxRows, NKeys
KeyDom == {NoneV, 1, 2}
KeyTuples == [1..NKeys -> KeyDom]
KeyTables == SeqsUpTo(KeyTuples, MaxRows)

VARIABLES K, rev, naLast, pass, indices
vars == <<K, rev, naLast, pass, indices>>
Init == /\ K \in KeyTables /\ rev \in [1..NKeys -> BOOLEAN] /\ naLast \in BOOLEAN
        /\ pass = NKeys /\ indices = Idx(K)
Pass == /\ pass >= 1
        /\ indices' = StablePass(indices, Column(K, pass), rev[pass], naLast)
        /\ pass' = pass - 1
        /\ UNCHANGED <<K, rev, naLast>>
Next == Pass
Spec == Init /\ [][Next]_vars

MultiPassIsDefinition == pass = 0 => indices = SortPerm(K, rev, naLast)
Laws == pass = NKeys =>
    LET p == SortPerm(K, rev, naLast) IN
      /\ IsPerm(p, Len(K)) /\ Ordered(K, rev, naLast, p) /\ Stable(K, rev, naLast, p)
      /\ NonePlacement(K, naLast, p)
      /\ LET K2 == [i \in 1..Len(K) |-> K[p[i]]] IN SortPerm(K2, rev, naLast) = Idx(K2)    \* idempotent
=============================================================================
