--------------------------- MODULE Trace_Vector ---------------------------
(* Trace validator for vector operations recorded from the real library on random, larger
   inputs (lengths up to 40, arbitrary slice components).  Events:
     slice  : n, s, e, st (99 = absent), idx        positions the library selected
     mask   : mask, idx
     assign : n, key, value, ok, contents           contents on a vector initialised to 11..10+n
     elem   : mode, la, lb, na, nb, ok, nonepos     positions of None in the result
     na     : vals, isna, dropna, fill (fill value 7)
     rgetitem / rsetitem : v[key] and v[key] = value as executed by the repository's own tests
              (contents abstracted by Python equality, None = -1)                             *)
EXTENDS SerifVector, TLC, Json, IOUtils
Trace == ndJsonDeserialize(IOEnv.TRACE_FILE)
ToSetOf(s) == {s[i] : i \in 1..Len(s)}
Orig(n) == [i \in 1..n |-> 10 + i]
Verdict(e) ==
    CASE e.op = "slice" -> IF SliceIdx(e.n, e.s, e.e, e.st) = e.idx THEN "ok" ELSE "slice"
      [] e.op = "mask"  -> IF MaskIdx(e.mask) = e.idx THEN "ok" ELSE "mask"
      [] e.op = "assign" ->
           LET pos == KeyPositions(e.n, e.key) IN
           IF AssignShapeOk(pos, e.value) # e.ok THEN (IF e.ok THEN "assign_reject" ELSE "assign")
           ELSE IF e.ok /\ AssignContents(Orig(e.n), pos, e.value) # e.contents THEN "assign"
           ELSE IF ~e.ok /\ e.contents # Orig(e.n) THEN "atomic"
           ELSE "ok"
      [] e.op = "elem" ->
           IF ElementwiseOk(e.mode, e.la, e.lb) # e.ok THEN "length_mismatch"
           ELSE IF ~e.ok THEN "ok"
           ELSE LET r == Elementwise(e.mode, e.la, e.lb, ToSetOf(e.na), ToSetOf(e.nb)) IN
                IF {i \in 1..Len(r) : r[i] = <<0, 0>>} = ToSetOf(e.nonepos) /\ Len(r) = e.len THEN "ok" ELSE "none_handling"
      [] e.op = "na" ->
           IF IsNa(e.vals) # e.isna THEN "isna"
           ELSE IF DropNa(e.vals) # e.dropna THEN "dropna"
           ELSE IF FillNa(e.vals, 7) # e.fill THEN "fillna" ELSE "ok"
      [] e.op = "rgetitem" ->       \* recorded from the repository's own tests: arbitrary contents
           LET pos == KeyPositions(e.n, e.key) IN
           IF IsErr(pos) = e.ok THEN (IF e.ok THEN "index_accepts" ELSE "index_rejects")
           ELSE IF e.ok /\ e.res # [k \in 1..Len(pos) |-> e.vals[pos[k] + 1]] THEN "getitem"
           ELSE "ok"
      [] e.op = "rsetitem" ->       \* a type rejection is not judged here (e.ok = FALSE with a good shape): only atomicity
           LET pos == KeyPositions(e.n, e.key) IN
           IF e.ok /\ ~AssignShapeOk(pos, e.value) THEN "assign_reject"
           ELSE IF e.ok /\ AssignContents(e.before, pos, e.value) # e.after THEN "assign"
           ELSE IF ~e.ok /\ e.after # e.before THEN "atomic"
           ELSE "ok"
      [] OTHER -> "unknown_op"
Bad == {<<Trace[i].id, Verdict(Trace[i])>> : i \in {j \in 1..Len(Trace) : Verdict(Trace[j]) # "ok"}}
VARIABLE done
Init == done = FALSE
Next == done = FALSE /\ done' = TRUE /\ PrintT(<<"VERDICT", ToJson([n |-> Len(Trace), bad |-> Bad])>>)
=============================================================================
