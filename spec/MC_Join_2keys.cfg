SPECIFICATION Spec
CONSTANTS
  JoinDevs = {}
  MaxRows = 2
  NKeys = 2
  Expects = {"one_to_one", "many_to_one", "one_to_many", "many_to_many"}
INVARIANT MachineIsDefinition
INVARIANT BucketsAscending
INVARIANT ExpectationIsFilter
CHECK_DEADLOCK FALSE
