#!/bin/bash
# usage: seedpar.sh <jobs> <dir>...   : evaluate seeded changes in parallel, each on its own scratch clone of /repo (never /repo itself)
jobs="$1"; shift
one() {
  d="$1"; id=$(basename "$d"); prop=$(echo "$id" | cut -c1-3)
  R=/tmp/seedpar.$$.$id
  rm -rf "$R"; git clone -q /repo "$R" || { echo "$id: clone failed"; return; }
  pre=$(PYTHONPATH=$R/src /venv/bin/python -W ignore "$d/demo.py" >/dev/null 2>&1; echo $?)
  if ! git -C "$R" apply "$d/patch.diff" 2>/dev/null; then echo "$id: patch does not apply"; rm -rf "$R"; return; fi
  suite=$(cd "$R" && PYTHONPATH=$R/src /venv/bin/python -m pytest -q -p no:cacheprovider 2>&1 | tail -1 | cut -c1-40)
  post=$(PYTHONPATH=$R/src /venv/bin/python -W ignore "$d/demo.py" >/dev/null 2>&1; echo $?)
  out=$(cd /verif && VERIF_OUT=$R/.verif_out SERIF_REPO=$R ./check $prop 2>&1 | grep -E "^(OK|VIOLATION|MACHINERY)" | head -1 | cut -c1-60)
  clause=$(ls -t $R/.verif_out/violations/$prop-*.json 2>/dev/null | head -1 | xargs -r /venv/bin/python -c "import json,sys; v=json.load(open(sys.argv[1])); print(v.get('clause'),'@',v.get('suite'))" 2>/dev/null)
  echo "$id: demo_clean=$pre suite=[$suite] demo_patched=$post => $out $clause"
  rm -rf "$R"
}
for d in "$@"; do
  one "$d" &
  while [ $(jobs -r | wc -l) -ge "$jobs" ]; do sleep 1; done
done
wait
