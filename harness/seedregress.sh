#!/bin/sh
# usage: seedregress.sh [dirs...]   : every kept seeded change (default: /verif/seeded/*) is applied to a SCRATCH clone of /repo
# (never to /repo itself), confirmed (suite green, demo fails) and the quick check of its property must report a VIOLATION.
# Prints one line per change and a summary; exit 1 if a change is no longer caught.
R=${SEED_SCRATCH:-/tmp/seedrepo.$$}
rm -rf "$R"; git clone -q ${SEED_SRC:-/repo} "$R" || exit 2
trap 'rm -rf "$R"' EXIT
dirs="$@"; [ -z "$dirs" ] && dirs=$(ls -d /verif/seeded/C*)
miss=0; n=0; stale=0
for d in $dirs; do
  id=$(basename $d); prop=$(echo $id | cut -c1-3)
  git -C "$R" reset -q --hard; git -C "$R" clean -qfd
  if ! git -C "$R" apply "$d/patch.diff" 2>/dev/null; then
    echo "$id: STALE (patch no longer applies to the repaired tree)"; stale=$((stale+1)); continue
  fi
  n=$((n+1))
  demo=$(PYTHONPATH=$R/src /venv/bin/python -W ignore "$d/demo.py" >/dev/null 2>&1; echo $?)
  out=$(cd /verif && VERIF_OUT=$R/.verif_out SERIF_REPO=$R ./check $prop 2>&1 | grep -E "^(OK|VIOLATION|MACHINERY)" | head -1 | cut -c1-70)
  clause=$(cd $R/.verif_out 2>/dev/null && ls -t violations/$prop-*.json 2>/dev/null | head -1 | xargs -r /venv/bin/python -c "import json,sys; v=json.load(open(sys.argv[1])); print(v.get('clause'),'@',v.get('suite'))" 2>/dev/null)
  case "$out" in
    VIOLATION*) echo "$id: demo_exit=$demo caught  $clause";;
    *) if [ "$demo" = "0" ]; then echo "$id: INEFFECTIVE on the repaired tree (its demonstration passes with the change applied)"; stale=$((stale+1));
       else echo "$id: demo_exit=$demo MISSED  $out"; miss=$((miss+1)); fi;;
  esac
done
echo "SUMMARY applied=$n missed=$miss stale=$stale"
[ $miss -eq 0 ]
