"""Driver for the repr suite (C20).   replay <cases.json> <out.json> | values <out.json>"""
import itertools
import json
import math
import re
import sys
import warnings
from datetime import date, datetime

warnings.simplefilter("ignore")
import serif                                               # noqa: E402
from serif import Vector, Table, set_repr_rows             # noqa: E402
from tabutil import vec_view, table_view, views_equal      # noqa: E402
from drv_vec import Fails, attempt                         # noqa: E402

VEC_FOOT = re.compile(r"^# (\d+) element vector <(\w+)(\?)?>$")
TAB_FOOT = re.compile(r"^# (\d+)×(\d+) table <(.*)>$")


def dtype_token(schema):
    if schema is None:
        return "object"
    return schema.kind.__name__ + ("?" if schema.nullable else "")


def body_ids(lines):
    """row ids (values >= 1000 in the first column) and '...' markers, in order"""
    out = []
    for ln in lines:
        toks = ln.split()
        if not toks:
            continue
        if toks[0] == "...":
            out.append(-1)
        elif re.fullmatch(r"-?\d+", toks[0]) and int(toks[0]) >= 1000:
            out.append(int(toks[0]) - 1000)
    return out


def replay(cases_path, out_path):
    cases = json.load(open(cases_path))
    F, ex = Fails(), 0
    for n_case, c in enumerate(cases):
        n_case = c.get("_n", n_case)
        n, limit, ncols = c["n"], c["limit"], c["ncols"]
        exp_rows = c["rows"]
        # ---------------- vector (global set_repr_rows)
        if ncols == 0:
            v = Vector([1000 + i for i in range(n)], name=["v", None, "my col"][n_case % 3])
            before = vec_view(v)
            set_repr_rows(limit)
            try:
                st, r, e = attempt(lambda: repr(v))
            finally:
                set_repr_rows(None)
            ex += 1
            info = {"what": "vector"}
            if st != "ok" or not isinstance(r, str):
                F.add("repr_raises", c, type(e).__name__ if st != "ok" else type(r).__name__, "a string", **info)
                continue
            lines = r.split("\n")
            foot = lines[-1]
            if n == 0:
                # "# empty" is accepted as stating zero elements
                if not foot.startswith("# empty") and not VEC_FOOT.match(foot):
                    F.add("footer", c, foot, "# empty", **info)
            else:
                m = VEC_FOOT.match(foot)
                if not m or int(m.group(1)) != n or m.group(2) != "int" or m.group(3):
                    F.add("footer", c, foot, f"# {n} element vector <int>", **info)
            got = body_ids(lines[:-1])
            if got != exp_rows:
                F.add("preview_rows", c, got, exp_rows, **info)
            if n > 0 and v.name and v.name not in lines[0]:
                F.add("header_names", c, lines[0], v.name, **info)
            if not views_equal(before, vec_view(v)):
                F.add("operands_unchanged", c, "repr changed the vector", "unchanged", **info)
            continue
        # ---------------- table (per-table _repr_rows and global setting alternate)
        names = [["a", "B b", None, "sum", "a"][k % 5] for k in range(ncols)]
        cols = [Vector([1000 + i + (0 if k == 0 else 5000 * k) for i in range(n)], name=names[k]) for k in range(ncols)]
        odd = None
        if ncols > 10 and n > 0 and n_case % 3:
            # a column hidden by the column budget has another dtype (str) or is nullable
            odd = 5 + (n_case % (ncols - 10))
            if n_case % 3 == 1:
                cols[odd] = Vector(["s%d" % i for i in range(n)], name=names[odd])
            else:
                cols[odd] = Vector([None] + [7] * (n - 1), name=names[odd])
        if n == 0:
            cols = [Vector([], name=names[k]) for k in range(ncols)]
        t = Table(cols)
        before = table_view(t)
        use_global = n_case % 2 == 0
        if use_global:
            set_repr_rows(limit)
        else:
            t._repr_rows = limit
        try:
            st, r, e = attempt(lambda: repr(t))
        finally:
            set_repr_rows(None)
        ex += 1
        info = {"what": "table", "setting": "set_repr_rows" if use_global else "_repr_rows"}
        if st != "ok" or not isinstance(r, str):
            F.add("repr_raises", c, type(e).__name__ + ": " + str(e)[:60] if st != "ok" else type(r).__name__, "a string", **info)
            continue
        lines = r.split("\n")
        foot = lines[-1]
        m = TAB_FOOT.match(foot)
        if not m or (int(m.group(1)), int(m.group(2))) != (n, ncols):
            F.add("footer", c, foot, f"# {n}×{ncols} table <...>", **info)
        elif n > 0:
            tok = m.group(3)
            true = [dtype_token(col.schema()) for col in t.cols()]
            if tok == "mixed":
                if len(set(true)) == 1:
                    F.add("footer_dtype", c, tok, true[0], **info)
            elif "," not in tok:
                # a single dtype claims that EVERY column has it (also the ones hidden by the column budget)
                if set(true) != {tok}:
                    F.add("footer_dtype", c, tok, sorted(set(true)), **info)
            else:
                listed = [x.strip() for x in tok.split(",")]
                if "..." in listed:
                    k = listed.index("...")
                    if listed[:k] != true[:k] or listed[k + 1:] != true[len(true) - (len(listed) - k - 1):]:
                        F.add("footer_dtype", c, tok, true, **info)
                elif listed != true:
                    F.add("footer_dtype", c, tok, true, **info)
        got = body_ids(lines[:-1])
        if n > 0 and got != exp_rows:
            F.add("preview_rows", c, got, exp_rows, **info)
        # header shows the stored names of the visible columns
        vis = [k for k in c["cols"] if k >= 0]
        header = lines[0] if lines else ""
        for k in vis:
            nm = names[k]
            if nm and nm not in header and repr(nm) not in header:
                F.add("header_names", c, header, nm, **info)
        # every cell of a body line belongs to ONE row (cell of column k in row i is 1000 + i + 5000 k)
        if n > 0:
            for ln in lines[:-1]:
                toks = ln.split()
                if toks and re.fullmatch(r"\d+", toks[0]) and int(toks[0]) >= 1000:
                    i_row = (int(toks[0]) - 1000) % 5000
                    odd_cells = [tk for tk in toks[1:] if re.fullmatch(r"\d+", tk) and int(tk) >= 1000 and (int(tk) - 1000) % 5000 != i_row]
                    if odd_cells:
                        F.add("preview_rows", c, ln.strip()[:120], "the cells of row %d in every shown column" % i_row, **info)
                        break
        # a wide table shows the first and last five columns around an ellipsis column
        if n > 0:
            ncells = len(lines[len(lines) - 3].split()) if len(lines) >= 3 else 0
            body_line = next((ln for ln in lines if ln.split() and re.fullmatch(r"\d+", ln.split()[0]) and int(ln.split()[0]) >= 1000), None)
            if body_line is not None:
                cells = body_line.split()
                if len(cells) != len(c["cols"]):
                    F.add("preview_cols", c, len(cells), len(c["cols"]), **info)
        if not views_equal(before, table_view(t)):
            F.add("operands_unchanged", c, "repr changed the table", "unchanged", **info)
    json.dump({"executed": ex, "failures": F.items, "per_clause": F.per, "skipped": F.skipped}, open(out_path, "w"), default=str)


class Odd:
    def __repr__(self):
        return "Odd()"


VALUE_CLASSES = {
    "float": [float("nan"), float("inf"), float("-inf"), -0.0, 1e308, 1e-300, 2.0, 2.5],
    "int": [10 ** 30, -1, 0],
    "str": ["", "...", "x" * 300, "multi\nline", "tab\t", "ünï", "'quoted'"],
    "object": [[1, [2, 3]], {"k": 1}, (1, 2), b"bytes", 1 + 2j, Odd(), "...", "", None, float("nan")],
    "bool": [True, False],
    "date": [date(2020, 2, 29), date(1, 1, 1), date(9999, 12, 31)],
    "datetime": [datetime(2020, 1, 1, 12, 30)],
    "complex": [1 + 2j, complex("nan")],
    "bytes": [b"", b"\x00\xff"],
}


def dtype_token(schema):
    if schema is None:
        return "object"
    return schema.kind.__name__ + ("?" if schema.nullable else "")


def _overwrite(v, filler):
    for i, x in enumerate(list(v)):
        if x is None:
            v[i] = filler
    return v


def values(out_path):
    """every dtype x special value x position class x None: repr returns a string, states the true count and dtype"""
    F, ex = Fails(), 0
    for tag, specials in VALUE_CLASSES.items():
        for sp in specials:
            for n in (1, 3, 13, 30):
                for pos in ("first", "middle", "last"):
                    for with_none in (False, True):
                        base = specials[0] if tag != "object" else 7
                        filler = {"float": 1.5, "int": 3, "str": "s", "object": "o", "bool": True, "date": date(2020, 1, 1),
                                  "datetime": datetime(2021, 1, 1), "complex": 2j, "bytes": b"b"}[tag]
                        vals = [filler] * n
                        idx = {"first": 0, "middle": n // 2, "last": n - 1}[pos]
                        vals[idx] = sp
                        if tag == "object" and n > 1:
                            vals[(idx + 1) % n] = 42          # keep the column object-typed
                        if with_none and n > 1:
                            vals[(idx + 1) % n if tag != "object" else (idx + 2) % n] = None
                        case = {"dtype": tag, "special": repr(sp)[:40], "n": n, "pos": pos, "none": with_none}
                        st0, v, e0 = attempt(lambda: Vector(list(vals), name="x"))
                        if st0 != "ok":
                            continue
                        before = vec_view(v)
                        st, r, e = attempt(lambda: repr(v))
                        ex += 1
                        if st != "ok" or not isinstance(r, str):
                            F.add("repr_raises", case, type(e).__name__ + ": " + str(e)[:60], "a string", what="vector")
                        else:
                            foot = r.split("\n")[-1]
                            m = VEC_FOOT.match(foot)
                            if not m or int(m.group(1)) != n or (m.group(2) + (m.group(3) or "")) != dtype_token(v.schema()):
                                F.add("footer", case, foot, f"# {n} element vector <{dtype_token(v.schema())}>", what="vector")
                        if not views_equal(before, vec_view(v)):
                            F.add("operands_unchanged", case, "repr changed the vector", "unchanged")
                        # the dtype in the footer is the vector's dtype - also for a nullable vector that holds no None at the
                        # moment (the gaps were masked away, or overwritten)
                        if with_none and n > 1:
                            for how, mkw in (("masked", lambda: v[[x is not None for x in vals]]), ("overwritten", lambda: _overwrite(Vector(list(vals), name="x"), filler))):
                                stw, w, ew = attempt(mkw)
                                if stw != "ok" or not isinstance(w, Vector) or len(w) == 0:
                                    continue
                                stw, rw, ew = attempt(lambda: repr(w))
                                ex += 1
                                if stw == "ok" and isinstance(rw, str):
                                    m = VEC_FOOT.match(rw.split("\n")[-1])
                                    if not m or int(m.group(1)) != len(w) or (m.group(2) + (m.group(3) or "")) != dtype_token(w.schema()):
                                        F.add("footer", dict(case, gaps=how), rw.split("\n")[-1], f"# {len(w)} element vector <{dtype_token(w.schema())}>", what="vector")
                        # the same column inside a table
                        st1, t, e1 = attempt(lambda: Table([Vector(list(vals), name="x"), Vector(list(range(n)), name="i")]))
                        if st1 != "ok":
                            continue
                        st, r, e = attempt(lambda: repr(t))
                        ex += 1
                        if st != "ok" or not isinstance(r, str):
                            F.add("repr_raises", case, type(e).__name__ + ": " + str(e)[:60], "a string", what="table")
                        else:
                            lines = r.split("\n")
                            m = TAB_FOOT.match(lines[-1])
                            if not m or (int(m.group(1)), int(m.group(2))) != (n, 2):
                                F.add("footer", case, lines[-1], f"# {n}×2 table", what="table")
                            else:
                                toks = [dtype_token(col.schema()) for col in t.cols()]
                                tok = m.group(3)
                                if tok == "mixed":
                                    if len(set(toks)) == 1:
                                        F.add("footer_dtype", case, tok, toks, what="table")
                                    hdr = [ln for ln in lines if "[" in ln and "]" in ln]
                                    if not hdr or [x.strip("[]") for x in hdr[0].split()] != toks:
                                        F.add("footer_dtype", case, hdr[:1], toks, what="table header dtype row")
                                elif [x.strip() for x in tok.split(",")] not in (toks, [toks[0]] if len(set(toks)) == 1 else toks):
                                    F.add("footer_dtype", case, tok, toks, what="table")
    # empty vectors that still have a dtype (an empty slice, a mask that keeps nothing, Vector([], dtype=...)): whatever the
    # footer states - a count, a dtype - is true.  A footer that states neither ("# empty ...") says nothing false.
    for tag, specials in VALUE_CLASSES.items():
        if tag == "object":
            continue
        filler = specials[-1]
        for with_none in (False, True):
            src = [filler, None, filler] if with_none else [filler, filler, filler]
            st0, v, e0 = attempt(lambda: Vector(list(src), name="x"))
            if st0 != "ok":
                continue
            makers = {"empty slice": lambda: v[0:0], "slice past the end": lambda: v[5:], "mask keeping nothing": lambda: v[[False] * 3],
                      "Vector([], dtype)": lambda: Vector([], dtype=v.schema().kind)}
            for how, mk in makers.items():
                stw, w, ew = attempt(mk)
                if stw != "ok" or not isinstance(w, Vector) or len(w) != 0:
                    continue
                case = {"dtype": tag, "empty by": how, "none": with_none}
                st, r, e = attempt(lambda: repr(w))
                ex += 1
                if st != "ok" or not isinstance(r, str):
                    F.add("repr_raises", case, type(e).__name__ + ": " + str(e)[:60], "a string", what="empty vector")
                    continue
                foot = r.split("\n")[-1]
                m = VEC_FOOT.match(foot)
                mm = re.search(r"<(\w+\??)>", foot)
                cnt = re.search(r"(\d+) element", foot)
                if m and (int(m.group(1)) != 0 or (m.group(2) + (m.group(3) or "")) != dtype_token(w.schema())):
                    F.add("footer", case, foot, f"# 0 element vector <{dtype_token(w.schema())}>", what="empty vector")
                elif not m and mm and mm.group(1) != dtype_token(w.schema()):
                    F.add("footer", case, foot, "the true dtype " + dtype_token(w.schema()), what="empty vector")
                elif not m and cnt and int(cnt.group(1)) != 0:
                    F.add("footer", case, foot, "0 elements", what="empty vector")
                # the zero-row table of that column
                st1, t0, e1 = attempt(lambda: Table([Vector(list(src), name="x"), Vector([1, 2, 3], name="i")])[0:0])
                if st1 != "ok" or not isinstance(t0, Table):
                    continue
                st, r, e = attempt(lambda: repr(t0))
                ex += 1
                if st != "ok" or not isinstance(r, str):
                    F.add("repr_raises", case, type(e).__name__ + ": " + str(e)[:60], "a string", what="zero-row table")
                else:
                    m = TAB_FOOT.match(r.split("\n")[-1])
                    if not m or (int(m.group(1)), int(m.group(2))) != (0, 2):
                        F.add("footer", case, r.split("\n")[-1], "# 0×2 table", what="zero-row table")
    # "never misstates ... data": two short vectors / tables that differ in ONE visible cell never print alike, and the cell
    # of a (left-aligned) text column shows the stored text, leading blanks included.  Trailing blanks are lost in the padding
    # of the column, so pairs that differ only there are not compared.
    distinct = {"str": ["x", "  x", " x", "x y", "x  y", "    ", "", "X", "x.", "None", "1"], "int": [0, 1, -1, 10, 10 ** 30, -(10 ** 30)],
                "bool": [True, False], "date": [date(2020, 2, 29), date(2020, 2, 28), date(1, 1, 1)], "float": [1.5, -1.5, 2.5, 0.0, float("inf"), 2.0 ** 70, 2.0 ** 70 + 2.0 ** 30, 1e16 + 2, 123456789012345678.0],
                "int?": [1, 2, None], "datetime": [datetime(2020, 1, 1, 12, 30), datetime(2020, 1, 1, 12, 31), datetime(2020, 1, 1), datetime(2020, 1, 1, 12, 30, 0, 5),
                             datetime(2020, 1, 1, 12, 30, 0, 6), datetime(2020, 1, 1, 12, 30, 7)],
                "complex": [1 + 2j, 1 - 2j, 2j]}
    for tag, vals in distinct.items():
        for a, b in itertools.combinations(vals, 2):
            if tag == "str" and a.rstrip() == b.rstrip():
                continue
            for other in ([vals[0], vals[1]], [vals[1], None]):
                for what in ("vector", "table"):
                    def show(x):
                        data = [other[0], x, other[1]]
                        return repr(Vector(list(data), name="c")) if what == "vector" else repr(Table({"c": list(data), "k": ["p", "q", "r"]}))
                    sa, ra, ea = attempt(lambda: show(a))
                    sb, rb, eb = attempt(lambda: show(b))
                    ex += 1
                    case = {"dtype": tag, "cell a": repr(a), "cell b": repr(b), "what": what, "neighbours": repr(other)}
                    if sa != "ok" or sb != "ok":
                        F.add("repr_raises", case, repr(ea or eb)[:80], "a string", what=what)
                    elif ra == rb:
                        F.add("repr_data", case, ra, "two different pictures: the data differ in a visible cell")
                    elif tag == "str":
                        # the text itself, at the start of its line (text columns are left-aligned, the first column starts the line)
                        for val, pic in ((a, ra), (b, rb)):
                            lines = pic.split("\n")
                            body = [ln for ln in lines if ln.startswith(val) and (val.strip() or ln[:len(val)] == val)]
                            if val.strip() and not body:
                                F.add("repr_data", case, pic, "a body line starting with the stored text " + repr(val))
    # ... also when the two cells are EQUAL under == (1 / True / 1.0, 0 / False / 0.0, 0.0 / -0.0) but are different values:
    # in an object column (a text neighbour keeps it one) each prints as itself, whatever was printed before
    eq_pairs = [(1, True), (1, 1.0), (True, 1.0), (0, False), (0, 0.0), (False, 0.0), (2, 2.0)]
    for a, b in eq_pairs + [(y, x) for x, y in eq_pairs]:
        for what in ("vector", "table", "one vector holding both"):
            def show(cells):
                return repr(Vector(list(cells), name="c")) if what != "table" else repr(Table({"c": list(cells), "k": list(range(len(cells)))}))
            if what == "one vector holding both":
                sa, ra, ea = attempt(lambda: show(["s", a, b, a]))
                sb, rb, eb = attempt(lambda: show(["s", a, a, a]))
            else:
                sa, ra, ea = attempt(lambda: show(["s", a]))
                sb, rb, eb = attempt(lambda: show(["s", b]))
            ex += 1
            case = {"dtype": "object", "cell a": repr(a), "cell b": repr(b), "what": what}
            if sa != "ok" or sb != "ok":
                F.add("repr_raises", case, repr(ea or eb)[:80], "a string", what=what)
            elif ra == rb:
                F.add("repr_data", case, ra, "two different pictures: the cells are different values (equal under ==)")
    for a, b in ((0.0, -0.0), (-0.0, 0.0)):
        sa, ra, ea = attempt(lambda: repr(Vector([a, 1.5], name="c")))
        sb, rb, eb = attempt(lambda: repr(Vector([b, 1.5], name="c")))
        ex += 1
        if sa == "ok" and sb == "ok" and ra == rb:
            F.add("repr_data", {"dtype": "float", "cell a": repr(a), "cell b": repr(b), "what": "vector"}, ra, "two different pictures")
    # repr has no memory: whatever was printed before, under whatever preview limit, the picture is that of a fresh equal object
    # under the limit in force NOW
    for nrows in (3, 10, 13, 30):
        for first, second in ((12, 4), (6, 40), (4, 12), (None, 6), (40, None), (2, 3), (20, None), (4, None)):
            cols = {"a": list(range(nrows)), "b": [str(i) for i in range(nrows)]}
            t, v = Table({k: list(x) for k, x in cols.items()}), Vector(list(cols["a"]), name="a")
            set_repr_rows(first)
            attempt(lambda: (repr(t), repr(v)))
            set_repr_rows(second)
            got = attempt(lambda: (repr(t), repr(v)))
            if second is None:
                set_repr_rows(12)       # None resets to the documented library default: the picture is that under an explicit 12
            want = attempt(lambda: (repr(Table({k: list(x) for k, x in cols.items()})), repr(Vector(list(cols["a"]), name="a"))))
            set_repr_rows(None)
            ex += 1
            if got[0] != want[0] or (got[0] == "ok" and got[1] != want[1]):
                F.add("preview_rows", {"rows": nrows, "printed first under limit": first, "then under limit": second},
                      got[1][0] if got[0] == "ok" else repr(got[2]), want[1][0] if want[0] == "ok" else repr(want[2]))
    # ... and printing one object (a peek() summary carries a preview limit of its own) does not change the limit for the others
    for user_limit in (4, 6, None):
        big = Table({"c%d" % i: [1, 2, 3] for i in range(9)})
        long_v, long_t = Vector(list(range(10)), name="a"), Table({"a": list(range(10)), "b": list(range(10))})
        set_repr_rows(user_limit)
        want = attempt(lambda: (repr(Vector(list(range(10)), name="a")), repr(Table({"a": list(range(10)), "b": list(range(10))}))))
        attempt(lambda: repr(big.peek()))
        attempt(lambda: repr(big.T))
        got = attempt(lambda: (repr(long_v), repr(long_t)))
        set_repr_rows(None)
        ex += 1
        if got[0] != want[0] or (got[0] == "ok" and got[1] != want[1]):
            F.add("preview_rows", {"limit set by the user": user_limit, "printed in between": "t.peek(), t.T"},
                  got[1][0] if got[0] == "ok" else repr(got[2]), want[1][0] if want[0] == "ok" else repr(want[2]))
    # nested vectors of unequal length inside an object vector
    for inner in ([Vector([1, 2]), Vector([1, 2, 3])], [Vector([]), Vector([1])], [Vector(["a"]), 5, None]):
        case = {"dtype": "object", "special": "nested vectors", "n": len(inner)}
        st0, v, e0 = attempt(lambda: Vector(list(inner)))
        if st0 != "ok":
            continue
        st, r, e = attempt(lambda: repr(v))
        ex += 1
        if st != "ok" or not isinstance(r, str):
            F.add("repr_raises", case, type(e).__name__ + ": " + str(e)[:60], "a string", what="vector of vectors")
    json.dump({"executed": ex, "failures": F.items, "per_clause": F.per, "skipped": F.skipped}, open(out_path, "w"), default=str)


def state(cases_path, out_path):
    """replay of SerifReprState histories: every step is the public call named by the spec action; after a printing the
    body rows are those the spec computed under the limit in force"""
    cases = json.load(open(cases_path))
    F, ex = Fails(), 0
    nrows = {"v10": 10, "v13": 13, "t13": 13, "t5": 5}
    for n_case, hist in enumerate(cases):
        set_repr_rows(12)                   # the documented default, said explicitly (a reset is one of the actions under test)
        objs = {"v10": Vector([1000 + i for i in range(10)], name="v"), "v13": Vector([1000 + i for i in range(13)], name="w"),
                "t13": Table({"a": [1000 + i for i in range(13)], "b": ["s%d" % i for i in range(13)]}),
                "t5": Table({"a": [1000 + i for i in range(5)], "b": [float(i) for i in range(5)]})}
        trail = []
        for step in hist:
            kind, obj, limit = step["kind"], step["obj"], step["limit"]
            trail.append(kind + ("(" + obj + ")" if obj != "-" else "") + ("=" + str(limit) if kind in ("set", "tset") else ""))
            case = {"history": list(trail), "_n": n_case}
            if kind == "set":
                st, r, e = attempt(lambda: set_repr_rows(limit))
            elif kind == "reset":
                st, r, e = attempt(lambda: set_repr_rows(None))
            elif kind == "tset":
                st, r, e = attempt(lambda: setattr(objs[obj], "_repr_rows", limit))
            elif kind == "tclear":
                st, r, e = attempt(lambda: setattr(objs[obj], "_repr_rows", None))
            elif kind == "peek":
                st, r, e = attempt(lambda: repr(objs[obj].peek()))
            else:
                before = vec_view(objs[obj]) if kind == "vprint" else table_view(objs[obj])
                st, r, e = attempt(lambda: repr(objs[obj]))
                ex += 1
                if st != "ok" or not isinstance(r, str):
                    F.add("repr_raises", case, type(e).__name__ + ": " + str(e)[:60] if st != "ok" else type(r).__name__, "a string")
                    break
                lines = r.split("\n")
                got = body_ids(lines[:-1])
                if got != step["rows"]:
                    F.add("preview_rows", case, got, step["rows"], limit_in_force=limit)
                m = (VEC_FOOT if kind == "vprint" else TAB_FOOT).match(lines[-1])
                if not m or int(m.group(1)) != nrows[obj]:
                    F.add("footer", case, lines[-1], "%d rows" % nrows[obj])
                after = vec_view(objs[obj]) if kind == "vprint" else table_view(objs[obj])
                if not views_equal(before, after):
                    F.add("operands_unchanged", case, "repr changed the object", "unchanged")
                continue
            if st != "ok":
                F.add("repr_raises", case, type(e).__name__ + ": " + str(e)[:60], "the call is accepted")
                break
    set_repr_rows(12)
    json.dump({"executed": ex, "failures": F.items, "per_clause": F.per, "skipped": F.skipped}, open(out_path, "w"), default=str)


if __name__ == "__main__":
    if sys.argv[1] == "state":
        state(sys.argv[2], sys.argv[3])
    elif sys.argv[1] == "replay":
        replay(sys.argv[2], sys.argv[3])
    else:
        values(sys.argv[2])
