"""SerifNaming suite (C17 accessors, C18 aggregate naming)."""
import json
import os

import engine
import naming_cfg

C17_GEN = ("sanitize", "stored_names", "advertised", "identifier", "shadows_api", "getattr", "setitem_key", "row_getattr",
           "string_index", "repr_dot_row")
C17_FLAGS = {"stored": "stored_names", "advertised": "advertised", "identifier": "identifier", "distinct": "distinct",
             "getattr": "getattr", "setitem": "setitem_key", "row": "row_getattr", "dot": "repr_dot_row"}


def gen(rep, tier, suites, clauses):
    res = naming_cfg.reserved()
    sc = engine.scratch()
    for s in suites:
        name, text, cfg = naming_cfg.build(s, maxw=3 if (tier == "quick" or s != "accessors") else 3, res=res)
        r = engine.run_tlc(name, cfg, module_text=text, timeout=1800)
        rep.add_mc(r, f"Gen_Naming {s}: laws (distinct, identifiers, not reserved, each accessor resolves to its column) + cases")
        cases = [dict(c, _n=i) for i, (_, c) in enumerate(r.prints)]
        cp, op = os.path.join(sc, f"names_{s}.json"), os.path.join(sc, f"names_{s}_out.json")
        json.dump(cases, open(cp, "w"))
        rep.sample({"suite": "names." + s, "case": cases[len(cases) // 3]})
        engine.run_driver("drv_names.py", ["replay", cp, op])
        out = json.load(open(op))
        rep.gen_cases += out["executed"]
        for k, v in out["skipped"].items():
            rep.skip(k, v)
        for f in out["failures"]:
            if f["clause"] in clauses:
                rep.fail(f["clause"], "names." + s, {k: v for k, v in f.items() if k not in ("clause", "observed", "expected")},
                         f["observed"], f["expected"])
    rep.extra["reserved_names"] = len(res)


def trace(rep, tier, seed, clauses):
    sc = engine.scratch()
    raw = os.path.join(sc, "names_trace.ndjson")
    n = 600 if tier == "quick" else 8000
    engine.run_driver("drv_names.py", ["record", str(seed), str(n), raw])
    evs = engine.read_ndjson(raw)
    path = os.path.join(sc, "names_trace_tlc.ndjson")
    engine.write_ndjson(path, evs, ["id", "names", "cmap"])
    name, text, cfg = naming_cfg.build("none")
    text = text.replace("EXTENDS Gen_Naming", "EXTENDS Trace_Naming")
    cfg = "INIT Init\nNEXT Next\nCONSTANTS\n  Reserved <- ReservedDef\nCHECK_DEADLOCK FALSE\n"
    text = "\n".join(l for l in text.splitlines() if not l.startswith("PoolDef"))
    r = engine.run_tlc(name, cfg, module_text=text, env={"TRACE_FILE": path}, workers=1, tags=("VERDICT",), timeout=1800)
    v = r.prints[0][1]
    if v["n"] != len(evs):
        raise engine.MachineryError("Trace_Naming did not consume all events")
    rep.trace_events += len(evs)
    rep.sample({"suite": "names.trace", "event": {"orig": evs[0]["orig"], "cmap": ["".join(a) for a in evs[0]["cmap"]]}})
    byid = {e["id"]: e for e in evs}
    for eid, clause in v["bad"]:
        if clause in clauses:
            e = byid[eid]
            rep.fail(clause, "names.trace", {"names": e["orig"]}, ["".join(a) for a in e["cmap"]], "spec ColumnMap(names)",
                     direction="trace")
    for e in evs:
        for flag, clause in C17_FLAGS.items():
            if e["flags"].get(flag) is False and clause in clauses:
                rep.fail(clause, "names.trace", {"names": e["orig"]}, {"accessors": ["".join(a) for a in e["cmap"]], "flag": flag},
                         "holds", direction="trace")
        if e["flags"].get("shadow") and "shadows_api" in clauses:
            rep.fail("shadows_api", "names.trace", {"names": e["orig"]}, e["flags"]["shadow"], "no accessor shadows the API", direction="trace")
