#!/bin/sh
# usage: seedround.sh <suffix> [ids...]  : run seedtest for every /tmp/seed/out/<ID><suffix> and print one line each
suf="$1"; shift
ids="$@"; [ -z "$ids" ] && ids="C01 C02 C03 C04 C05 C06 C07 C08 C09 C10 C11 C12 C13 C14 C15 C16 C17 C18 C19 C20"
for id in $ids; do
  d=/tmp/seed/out/${id}${suf}
  [ -f $d/patch.diff ] || { echo "$id$suf: no patch yet"; continue; }
  out=$(/verif/harness/seedtest.sh $d $id 2>&1 | grep -v WARNING)
  pre=$(echo "$out" | grep -A1 "unchanged tree" | grep exit= | tr -d ' ')
  suite=$(echo "$out" | grep -E "passed|failed" | head -1)
  post=$(echo "$out" | grep -A1 "with the change (must fail)" | grep exit= | tr -d ' ')
  verdict=$(echo "$out" | grep -E "^(OK|VIOLATION|MACHINERY)" | head -1 | cut -c1-60)
  clause=$(echo "$out" | grep "clause=" | head -1 | sed 's/.*clause=\([a-z_@A-Z]*\) suite=\([a-z.0-9A-Z_]*\).*/\1 @ \2/')
  echo "$id$suf: demo_clean=$pre suite=[$suite] demo_patched=$post => $verdict $clause"
done
