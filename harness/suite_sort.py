"""SerifSort suite (C14)."""
import engine
import suite_rel

SPEC_KEYS = ["id", "op", "K", "rev", "naLast", "perm", "out"]
CLAUSES = ("sort_perm", "vector_sort", "sort_idempotent", "not_a_permutation", "not_ordered", "not_stable",
           "operands_unchanged", "cells_together")


def _cfg(rows, keys):
    return f"""INIT Init
NEXT Next
CONSTANTS
 SortDevs = {{}}
 MaxRows = {rows}
 NKeys = {keys}
INVARIANT Emit
CHECK_DEADLOCK FALSE
"""


def mc(rep, tier):
    cfgs = ["MC_Sort_quick.cfg"] if tier == "quick" else ["MC_Sort_thorough.cfg", "MC_Sort_3keys.cfg"]
    for c in cfgs:
        rep.add_mc(engine.run_tlc("MC_Sort", c, timeout=1800), "multi-pass machine = stable permutation; laws (" + c + ")")
    d = engine.run_tlc("MC_Sort", "MC_Sort_dev_FlagNotFlipped.cfg", expect_violation=True)
    rep.add_dev("FlagNotFlipped", d, {"MultiPassIsDefinition"})


def gen(rep, tier, clauses=CLAUSES):
    scopes = [(4, 1), (3, 2)] if tier == "quick" else [(5, 1), (4, 2), (3, 3)]
    return suite_rel.gen(rep, "sort", "Gen_Sort", [(f"rows<={r} keys={k}", _cfg(r, k)) for r, k in scopes],
                         "replay_sort", clauses)


def _py(e):
    if e["op"] == "tsort":
        if not e.get("unchanged", True):
            yield ("operands_unchanged", "sort_by changed its input", "unchanged")
        if e.get("cells_together") is False:
            yield ("cells_together", "a row's cells were separated", "cells kept together")
        if not e.get("names_ok", True):
            yield ("names", "column names changed", "names kept")
    elif e["op"] == "vsort" and not e.get("name_kept", True) and not e.get("err"):
        yield ("names", "vector name lost", "name kept")


def trace(rep, tier, seed, clauses=CLAUSES):
    n, maxrows = (1500, 14) if tier == "quick" else (15000, 40)
    return suite_rel.trace(rep, "sort", "Trace_Sort", "Trace_Sort.cfg", "record_sort", [seed, n, maxrows],
                           SPEC_KEYS, clauses, hashseed=seed % 1000, py_clauses=_py)
