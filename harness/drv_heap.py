"""Replay of SerifHeap transitions into the real library (spec -> code), and random
histories of the real library recorded for Trace_Heap (code -> spec).

  replay <cases.ndjson> <out.json>

A case is {path: [action records], post: projected spec state}.  The path is executed on
fresh objects; after the LAST step the whole projected state of the implementation
(contents, names, dtypes, sharing, table structure, alias registry, fingerprint memos) is
compared with the spec's, then the fingerprint of every live object is compared with the
fingerprint of an object rebuilt from its plain values.
"""
import gc
import json
import sys
import warnings

warnings.simplefilter("ignore")
import serif                                                   # noqa: E402
from serif import Vector, Table, AliasError                    # noqa: E402
from serif.alias_tracker import _ALIAS_TRACKER                 # noqa: E402

NONE_V, FLOAT_V = -1, 5


PALETTE = "plain"          # "collide": abstract 0 / 1 become -1 / -2, whose hash() collide (also as floats)


def conc(x, kind):
    """palettes: plain (ints, promoted to float by 5.5); collide (-1 / -2); complex (ints, promoted to COMPLEX: the spec's
    "float" kind stands for complex); temporal (dates, promoted to DATETIME: "int" stands for date, "float" for datetime)"""
    if x == NONE_V:
        return None
    if PALETTE == "temporal":
        import datetime as _dt
        if x == FLOAT_V:
            return _dt.datetime(2021, 6, 7, 8, 9)
        d = _dt.date(2020, 1, 1) + _dt.timedelta(days=x)
        return _dt.datetime(d.year, d.month, d.day) if kind == "float" else d
    if PALETTE == "complex":
        if x == FLOAT_V:
            return 5.5 + 1j
        return complex(x) if kind == "float" else x
    if x == FLOAT_V:
        return 5.5
    if PALETTE == "collide":
        x = {0: -1, 1: -2}.get(x, x)
    return float(x) if kind == "float" else x


def kind_of(sch):
    """the spec's kind word for a dtype under the current palette"""
    if sch is None:
        return None
    nm = sch.kind.__name__
    if PALETTE == "complex":
        return {"complex": "float"}.get(nm, nm)
    if PALETTE == "temporal":
        return {"date": "int", "datetime": "float"}.get(nm, nm)
    return nm


def conc_vals(vals):
    kind = "float" if FLOAT_V in vals else "int"
    return [conc(x, kind) for x in vals]


# ------------------------------------------------------------------ observations (read-only operation families)
def _cap(fn):
    try:
        return _norm(fn())
    except Exception as ex:      # noqa: BLE001 - the class is part of the observation
        return "raised " + type(ex).__name__


def _norm(x):
    if isinstance(x, Table):
        return {"names": x.column_names(), "cols": [[repr(v) for v in c] for c in x.cols()], "len": len(x)}
    if isinstance(x, Vector):
        return {"vals": [repr(v) for v in x], "name": x.name}
    if isinstance(x, (list, tuple)):
        return [_norm(v) for v in x]
    if isinstance(x, float) and x != x:
        return "nan"
    if isinstance(x, (int, float, str, bool)) or x is None:
        return repr(x)
    return repr(x)


def _partner(v):
    """a vector equal to v except at positions where a hash-colliding different value exists"""
    swap = {-1: -2, -2: -1, -1.0: -2.0, -2.0: -1.0, 0: 2 ** 61 - 1}
    vals = list(v)
    return Vector([swap.get(x, x) if (x is not None and not isinstance(x, bool)) else x for x in vals])


def fresh_of(obj, keep_dtype=True):
    """an object freshly built from obj's plain values (same names; same declared dtypes unless keep_dtype is off -
    the fingerprint must not depend on the dtype either)"""
    def vec(c):
        if keep_dtype and c.schema() is not None:
            return Vector(list(c), dtype=c.schema(), name=c.name)
        return Vector(list(c), name=c.name)
    if isinstance(obj, Table):
        return Table([vec(c) for c in obj.cols()])
    return vec(obj)


def _vec_probes(fam):
    if fam == "unary":
        return [lambda v: -v, lambda v: abs(v), lambda v: +v]
    if fam == "stats":
        return [lambda v: v.sum(), lambda v: v.mean(), lambda v: v.stdev(), lambda v: v.min(), lambda v: v.max(),
                lambda v: v.any(), lambda v: v.all(), lambda v: len(v)]
    if fam == "na":
        return [lambda v: v.isna(), lambda v: v.dropna(), lambda v: v.fillna(9), lambda v: v.dropna().schema().nullable]
    if fam == "sort":
        return [lambda v: v.sort_by(), lambda v: v.sort_by(reverse=True), lambda v: v.sort_by(na_last=False), lambda v: v.unique()]
    if fam == "cmp":
        return [lambda v: v == _partner(v), lambda v: v != _partner(v), lambda v: v <= _partner(v),
                lambda v: v == Vector(list(v)), lambda v: v[v == _partner(v)]]
    if fam == "fp":
        return [lambda v: v.fingerprint()]
    if fam == "repr":
        return [lambda v: repr(v)]
    raise Diverged("unknown vector observation " + fam)


def _sort_twice(t):
    a = t.sort_by(t.cols()[0])
    b = t.sort_by(t.cols()[0])
    return [a, b, a is not b and all(x is not y for x in a.cols() for y in b.cols())]


def _join(kind, expect, as_right=True):
    def probe(t):
        other = fresh_of(t)
        k_other, k_t = other.cols()[0], t.cols()[0]
        if as_right:
            return getattr(other, kind)(t, left_on=k_other, right_on=k_t, expect=expect)
        return getattr(t, kind)(other, left_on=k_t, right_on=k_other, expect=expect)
    return probe


def _tab_probes(fam, t0):
    if fam == "sort":
        return [lambda t: t.sort_by(t.cols()[0]), lambda t: t.sort_by(t.cols()[0], reverse=True),
                lambda t: t.sort_by([t.cols()[0], t.cols()[-1]], reverse=[True, False]), _sort_twice]
    if fam == "agg":
        return [lambda t: t.aggregate(over=t.cols()[0], sum_over=t.cols()[-1], mean_over=t.cols()[-1], count_over=t.cols()[-1]),
                lambda t: t.window(over=t.cols()[0], sum_over=t.cols()[-1], max_over=t.cols()[-1]),
                lambda t: t.aggregate(over=t.cols()[0], sum_over=[t.cols()[-1], t.cols()[-1] * 2]),
                lambda t: t.window(over=t.cols()[0], mean_over=t.cols()[-1])]
    if fam == "join":
        # the expect words in an order in which an earlier lenient call must not relax a later strict one
        return [_join("inner_join", "many_to_many"), _join("inner_join", "many_to_one"), _join("join", "many_to_many"),
                _join("join", "one_to_one"), _join("full_join", "one_to_many"), _join("full_join", "many_to_one"),
                _join("inner_join", "one_to_many", as_right=False), _join("join", "many_to_one", as_right=False)]
    if fam == "select":
        names = [n for n in t0.column_names() if n is not None]
        keys = [("a",), ("b",), ("a", "b"), ("zz",)] + ([tuple(names)] if names else [])
        return [(lambda t, k=k: t[k]) for k in keys] + [lambda t: t[0:1], lambda t: t[[True] * len(t)],
                                                         lambda t: t["a"], lambda t: t["b"],
                                                         # other structural derivations: they answer for the CURRENT cells and names and
                                                         # leave the table's own bookkeeping (accessor map, memos) as it was
                                                         lambda t: t.T.T, lambda t: t.T, lambda t: t >> {"zz9": [7] * len(t)},
                                                         lambda t: sorted(set(dir(t)) - set(dir(Table()))), lambda t: t.T.T]
    if fam == "iter":
        return [lambda t: [[list(a), list(b)] for a in t for b in t], lambda t: [list(t[i]) for i in range(len(t))],
                lambda t: [list(r) for r in t], lambda t: len(t), lambda t: t.shape]
    if fam == "repr":
        return [lambda t: repr(t)]
    if fam == "names":
        base = set(dir(Table()))
        return [lambda t: t.column_names(), lambda t: sorted(set(dir(t)) - base),
                lambda t: [[i for i, c in enumerate(t.cols()) if getattr(t, a) is c] for a in sorted(set(dir(t)) - base)]]
    if fam == "fp":
        return [lambda t: t.fingerprint()]
    raise Diverged("unknown table observation " + fam)


def observe(obj, fam, make=None):
    """results of one family of read-only operations, normalised for comparison.  Without `make` all probes run on
    `obj` itself, in order (so a memo filled by one probe is there for the next); with `make` (the baseline) every
    single probe gets a brand-new object built from the current plain values, so no two probes share any history."""
    probes = _tab_probes(fam, obj) if isinstance(obj, Table) else _vec_probes(fam)
    get = (lambda: obj) if make is None else make
    return [_cap(lambda p=p: p(get())) for p in probes]


class Diverged(Exception):
    pass


class World:
    def __init__(self, variant):
        self.vec = {}      # spec obj id -> Vector the program holds
        self.tab = {}      # spec tab id -> Table
        self.tup = {}      # sid -> tuple the program holds
        self.cols = {}     # tab id -> [obj ids]   (mirror of the spec's cols, from live-set deltas)
        self.live = set()
        self.variant = variant
        self.nstep = 0
        self.forms = []
        self.prev_live = set()

    def refused_writes(self):
        """a step with no counterpart in the specification (stuttering): a write that is refused - a position the vector does
        not have - on everything the program holds.  A refusal changes nothing, so the history goes on as specified."""
        targets = list(self.vec.values()) + [c for t in self.tab.values() for c in t.cols()]
        for v in targets:
            try:
                v[len(v) + 5] = (list(v)[0] if len(v) else 0)
            except Exception:      # noqa: BLE001
                pass
        if "refused writes in between" not in self.forms:
            self.forms.append("refused writes in between")

    # -- object lookup -------------------------------------------------------------
    def obj(self, o):
        if o in self.vec:
            return self.vec[o]
        for t, cs in self.cols.items():
            if o in cs and t in self.tab:
                return self.tab[t].cols()[cs.index(o)]
        raise Diverged(f"no python object for spec object {o}")

    def column_pos(self, o):
        for t, cs in self.cols.items():
            if o in cs and t in self.tab:
                return t, cs.index(o)
        return None

    def names(self, t):
        return [self.obj(o).name for o in self.cols[t]]

    def accessor(self, t, i):
        names = self.names(t)
        nm = names[i]
        if nm is None:
            return f"col{i}_"
        if nm in names[:i]:
            return f"{nm}__{i}"
        return nm

    def pick(self, n):
        """deterministic choice among n implementation forms of one abstract action"""
        k = (self.variant + 7 * self.nstep) % n
        return k

    # -- one step ------------------------------------------------------------------
    def step(self, a):
        self.nstep += 1
        before = set(self.live)
        self.prev_live = before
        after = set(a["lv"])
        new = sorted(after - before)
        if self.variant % 2 == 1:
            self.refused_writes()
        res = self._do(a, new)
        # liveness bookkeeping: drop our references to whatever the spec says died
        for o in list(self.vec):
            if o not in after:
                del self.vec[o]
        for t in list(self.tab):
            if t not in after:
                del self.tab[t]
                self.cols.pop(t, None)
        self.live = after
        return res

    def _do(self, a, new):
        act = a["a"]
        if act == "NewVec":
            vals = conc_vals(a["vs"])
            if a["z"] == 1:
                tup = tuple(vals)
                self.tup[a["y"]] = tup
                v = Vector(tup)
                self.forms.append("Vector(tuple kept by the program)")
            else:
                v = Vector(list(vals)) if self.pick(2) == 0 else Vector(iter(vals))
            self.vec[new[0]] = v
            return "Ok"
        if act == "ShareVec":
            self.vec[new[0]] = Vector(self.tup[a["y"]])
            return "Ok"
        if act == "DropTuple":
            del self.tup[a["y"]]
            return "Ok"
        if act == "Copy":
            src = self.obj(a["x"])
            k = self.pick(4) if len(src) else self.pick(2)     # an empty Vector is untyped, hence not a boolean mask
            if k == 0:
                v = src.copy()
            elif k == 1:
                v = src[:]
            elif k == 2:
                v = src[[True] * len(src)]
            else:
                v = src[Vector([True] * len(src))]
            self.forms.append(["copy()", "v[:]", "v[list mask]", "v[Vector mask]"][k])
            self.vec[new[0]] = v
            return "Ok"
        if act == "RawCopy":
            import copy as _copy
            src = self.obj(a["x"])
            # (deepcopy rebuilds date / datetime cells, hence the tuple: only the shallow copy shares storage there)
            k = 0 if PALETTE == "temporal" else self.pick(2)
            self.vec[new[0]] = _copy.copy(src) if k == 0 else _copy.deepcopy(src)
            self.forms.append(["copy.copy(v)", "copy.deepcopy(v)"][k])
            return "Ok"
        if act == "ConcatEmpty":
            src = self.obj(a["x"])
            self.vec[new[0]] = [lambda: src << [], lambda: src << Vector([]), lambda: src << ()][self.pick(3)]()
            return "Ok"
        if act == "Drop":
            del self.vec[a["x"]]
            return "Ok"
        if act == "Write":
            return self.write(a)
        if act == "WriteNone":
            return self.write_none(a)
        if act == "WriteRow":
            t, r = a["x"], a["y"] - 1
            tab = self.tab[t]
            vals = []
            for o, x in zip(self.cols[t], a["vs"]):
                col = self.obj(o)
                kind = "float" if kind_of(col.schema()) == "float" else "int"
                vals.append(conc(x, kind))
            before = [list(c) for c in tab.cols()]
            k = self.pick(3)
            self.forms.append(["t[r] = row", "t[r, :] = row", "t[r-n, :] = tuple"][k])
            try:
                if k == 0:
                    tab[r] = list(vals)
                elif k == 1:
                    tab[r, :] = list(vals)
                else:
                    tab[r - len(tab), :] = tuple(vals)
            except AliasError:
                if [list(c) for c in tab.cols()] != before:
                    raise Mismatch("refused_changes_nothing", [list(c) for c in tab.cols()], before)
                return "Refused"
            return "Ok"
        if act == "ReadFpV":
            v = self.obj(a["x"])
            had = getattr(v, "_fp", None) is not None
            fp = v.fingerprint()
            ref = Vector(list(v)).fingerprint()
            if fp != ref:
                raise Mismatch("fp_value", f"fingerprint() of object {a['x']} differs from a rebuilt vector's", None)
            return "OkCached" if had else "Ok"
        if act == "NewTable":
            return self.new_table(a, new)
        if act == "SetAttr":
            t, i, d = a["x"], a["y"] - 1, a["z"]
            tab = self.tab[t]
            acc = self.accessor(t, i)
            nm_i = self.names(t)[i]
            if nm_i is not None and "__" not in acc and self.pick(2) == 1:
                acc = f"{nm_i}__{i}"         # the indexed spelling names the same column (also where the name is not repeated)
            self.forms.append("t.%s = v" % acc)
            donor = self.obj(d)
            try:
                setattr(tab, acc, donor)
            except (ValueError, AttributeError) as ex:
                return "Err"
            if new:
                self.cols[t][i] = new[0]
            else:
                self.cols[t][i] = d       # (only a deviating implementation keeps the donor itself)
            return "Ok"
        if act == "ColView":
            t, i = a["x"], a["y"] - 1
            o = self.cols[t][i]
            tab = self.tab[t]
            k = self.pick(3)
            if k == 0:
                v = getattr(tab, self.accessor(t, i))
            elif k == 1:
                v = tab.cols()[i]
            else:
                nm = self.names(t)[i]
                v = tab[nm] if (nm is not None and self.names(t).index(nm) == i) else tab.cols(i)
            self.vec[o] = v
            return "Ok"
        if act == "DropTable":
            del self.tab[a["x"]]
            self.cols.pop(a["x"], None)
            return "Ok"
        if act == "ReadFpT":
            tab = self.tab[a["x"]]
            fp = tab.fingerprint()
            ref = Table([Vector(list(c), name=c.name) for c in tab.cols()]).fingerprint()
            if fp != ref:
                raise Mismatch("fp_value", f"fingerprint() of table {a['x']} differs from a rebuilt table's", None)
            return "Ok"
        if act == "Rename":
            v, nm = self.obj(a["x"]), (None if a["nm"] == "-" else a["nm"])
            k = self.pick(3)
            if k == 2 and v.name is not None:
                k = 0                       # alias() is for unnamed vectors only
            self.forms.append(["v.name = x", "v.rename(x)", "v.alias(x)"][k])
            if k == 0:
                v.name = nm
            elif k == 1:
                v.rename(nm)
            else:
                v.alias(nm)
            return "Ok"
        if act == "RenameColumn":
            t, i = a["x"], a["y"] - 1
            old = self.names(t)[i]
            self.tab[t].rename_column(old, None if a["nm"] == "-" else a["nm"])
            return "Ok"
        if act == "Observe":
            fam = a["nm"]
            x = a["x"]
            obj = self.tab[x] if x >= 100 else self.obj(x)
            got = observe(obj, fam)
            want = observe(obj, fam, make=lambda: fresh_of(obj, keep_dtype=(fam != "fp")))
            if fam == "iter" and x >= 100:
                n = len(obj)
                cols_ = [[repr(v) for v in c] for c in obj.cols()]
                rows_ = [[c[i] for c in cols_] for i in range(n)]
                if got[0] != [[ra, rb] for ra in rows_ for rb in rows_] and not isinstance(got[0], str):
                    raise Mismatch("obs_iter", got[0], [[ra, rb] for ra in rows_ for rb in rows_])
            if got != want:
                k = next((i for i, (g, w_) in enumerate(zip(got, want)) if g != w_), 0)
                raise Mismatch("obs_" + fam, {"on the object with a history": got[k]}, {"on a freshly built equal object": want[k]})
            return "Ok"
        if act == "Dir":
            tab = self.tab[a["x"]]
            adv = set(dir(tab))
            want = [self.accessor(a["x"], i) for i in range(len(self.cols[a["x"]]))]
            missing = [x for x in want if x not in adv]
            if missing:
                raise Mismatch("lookup", {"dir() does not advertise": missing}, want)
            return "Ok"
        if act == "Lookup":
            acc, how = a["nm"].split("|")
            tab = self.tab[a["x"]]
            cols = tab.cols()
            if how == "getattr":
                try:
                    r = getattr(tab, acc)
                except AttributeError:
                    return "Missing"
                for k, c in enumerate(cols):
                    if c is r:
                        return f"Col{k + 1}"
                return "NotAColumn"
            # row access: identifies the column through the cell value (ambiguous when columns coincide)
            try:
                r = getattr(tab[0], acc)
            except AttributeError:
                return "Missing"
            want = a["res"]
            if want.startswith("Col"):
                k = int(want[3:]) - 1
                if k < len(cols) and _same(list(cols[k])[0], r):
                    return want
            for k, c in enumerate(cols):
                if _same(list(c)[0], r):
                    return f"Col{k + 1}"
            return "NotAColumn"
        raise Diverged("unknown action " + act)

    def write(self, a):
        o, i, x = a["x"], a["z"] - 1, a["w"]
        v = self.obj(o)
        kind = "float" if kind_of(v.schema()) == "float" else "int"
        val = conc(x, kind)
        pos = self.column_pos(o)
        forms = ["v[i] = x", "v[i:i+1] = [x]", "v[mask] = x", "v[[i]] = x", "v[i-n] = x", "v[Vector([i])] = [x]"]
        if pos is not None:
            forms += ["t[i, k] = x", "t[i, accessor] = x", "t.cols()[k][i] = x"]
        k = self.pick(len(forms))
        if a.get("nm") == "byname" and pos is not None:
            k = 7                      # table item assignment keyed by the column's CURRENT accessor
        self.forms.append(forms[k])
        n = len(v)
        self._sharers_before = [(p, list(p)) for p in self.vec.values() if p is not v and p._underlying is v._underlying]
        try:
            if k == 0:
                v[i] = val
            elif k == 1:
                v[i:i + 1] = [val]
            elif k == 2:
                v[[j == i for j in range(n)]] = val
            elif k == 3:
                v[[i]] = val
            elif k == 4:
                v[i - n] = val
            elif k == 5:
                v[Vector([i])] = [val]
            elif k == 6:
                self.tab[pos[0]][i, pos[1]] = val
            elif k == 7:
                self.tab[pos[0]][i, self.accessor(*pos)] = val
            else:
                self.tab[pos[0]].cols()[pos[1]][i] = val
        except AliasError:
            self._sharers_before = []
            return "Refused"
        sharers, self._sharers_before = self._sharers_before, []        # (keep no strong reference to the sharers beyond this call)
        # whoever shared the written storage still shows what it showed (C01 / C15: no leaked write)
        for p, before_vals in sharers:
            if not all(_same(x, y) for x, y in zip(list(p), before_vals)) or len(list(p)) != len(before_vals):
                raise Mismatch("leaked_write", {"a vector sharing the written storage changed": list(p)}, before_vals)
        del sharers
        return "Ok"

    def write_none(self, a):
        """a write that addresses no position, in every spelling"""
        o = a["x"]
        v = self.obj(o)
        n = len(v)
        filler = list(v)[0] if n and list(v)[0] is not None else 1
        pos = self.column_pos(o)
        forms = [("v[n:0] = x", lambda: v.__setitem__(slice(n, 0), filler)), ("v[n:0] = []", lambda: v.__setitem__(slice(n, 0), [])),
                 ("v[0:0] = []", lambda: v.__setitem__(slice(0, 0), [])), ("v[all-False mask] = x", lambda: v.__setitem__([False] * n, filler)),
                 ("v[all-False mask] = []", lambda: v.__setitem__([False] * n, [])), ("v[-1:0] = x", lambda: v.__setitem__(slice(-1, 0), filler)),
                 ("v[::-1][n:] (v[n+2:n+5] = x)", lambda: v.__setitem__(slice(n + 2, n + 5), filler)), ("v[0:n:-1] = x", lambda: v.__setitem__(slice(0, n, -1), filler))]
        if pos is not None:
            tab, k = self.tab[pos[0]], pos[1]
            forms += [("t[n:0, k] = x", lambda: tab.__setitem__((slice(n, 0), k), filler)), ("t[n:0, accessor] = []", lambda: tab.__setitem__((slice(n, 0), self.accessor(*pos)), [])),
                      ("t.cols()[k][-1:0] = []", lambda: tab.cols()[k].__setitem__(slice(-1, 0), []))]
        name, fn = forms[self.pick(len(forms))]
        self.forms.append(name)
        try:
            fn()
        except AliasError:
            return "Refused"
        return "Ok"

    def new_table(self, a, new):
        srcs = a["vs"]
        objs = [self.obj(o) for o in srcs]
        lens = {len(v) for v in objs}
        tid = [x for x in new if x >= 100]
        # is srcs exactly the column list of one live table?
        parent = None
        for t, cs in self.cols.items():
            if cs == srcs and t in self.tab:
                parent = t
        forms = ["Table([..])", "Vector([..])"]
        if len(objs) == 2 and all(v.schema() is not None for v in objs) and len({v.schema().kind for v in objs}) == 1:
            forms.append("v1 >> v2")        # `>>` refuses vectors of different typesafe kinds (precondition)
        vnames = [v.name for v in objs]
        if all(nm is not None for nm in vnames) and len(set(vnames)) == len(vnames) and len(lens) == 1:
            # a dict of plain tuples - where the program still holds the very tuple a source vector was built over, that one
            forms.append("Table({name: tuple})")
        if parent is not None:
            forms += ["t[:]", "t[all-True mask]", "t.copy()"]
            names = self.names(parent)
            if all(n is not None for n in names) and len(set(names)) == len(names):
                forms.append("t[names]")
        k = self.pick(len(forms))
        form = forms[k]
        self.forms.append(form)
        try:
            if form == "Table([..])":
                r = Table(list(objs))
            elif form == "Vector([..])":
                r = Vector(list(objs))
            elif form == "Table({name: tuple})":
                held = list(self.tup.values())
                r = Table({v.name: next((tp for tp in held if tp is v._underlying), tuple(v)) for v in objs})
            elif form == "v1 >> v2":
                r = objs[0] >> objs[1]
            elif form == "t[:]":
                r = self.tab[parent][:]
            elif form == "t[all-True mask]":
                r = self.tab[parent][[True] * len(self.tab[parent])]
            elif form == "t.copy()":
                r = self.tab[parent].copy()
            else:
                r = self.tab[parent][tuple(self.names(parent))]
        except Exception as ex:      # noqa: BLE001
            if len(lens) > 1:
                return "Err"
            raise Diverged(f"{form} raised {type(ex).__name__}: {ex}")
        if not isinstance(r, Table):
            if len(lens) > 1:
                return "Err"         # "rejected rather than stored": a non-Table result is accepted
            raise Diverged(f"{form} did not return a Table")
        if len(lens) > 1:
            # a Table with unequal columns was stored: keep it so that the state comparison shows it
            self.tab[999] = r
            return "Ok"
        self.tab[tid[0]] = r
        self.cols[tid[0]] = [x for x in new if x < 100]
        return "Ok"


class Mismatch(Exception):
    def __init__(self, clause, observed, expected):
        super().__init__(clause)
        self.clause, self.observed, self.expected = clause, observed, expected


def _same(a, b):
    return type(a) is type(b) and a == b


# --------------------------------------------------------------------------- comparison
def target_entity(w, a):
    """spec ids of the objects the last call is allowed to change / has just created"""
    if a is None:
        return set()
    act = a["a"]
    ids = set()
    if act == "WriteRow":
        ids |= set(w.cols.get(a["x"], [])) | {a["x"]}
    elif act in ("Write", "Rename", "WriteNone"):
        ids.add(a["x"])
        pos = w.column_pos(a["x"])
        if pos is not None:
            ids |= set(w.cols[pos[0]]) | {pos[0]}
    elif act in ("SetAttr", "RenameColumn"):
        ids |= set(w.cols.get(a["x"], [])) | {a["x"]}
    elif act in ("NewVec", "ShareVec", "Copy", "ConcatEmpty", "NewTable", "RawCopy"):
        ids |= set(a["lv"]) - w.prev_live
    return ids


def compare(w, post, last_act=None, strict_registry=True):
    """Yield (clause, observed, expected) for every disagreement between the implementation
    state and the spec's projected post state."""
    live = set(post["live"])
    nobj = len(post["store"])
    vec_ids = [o for o in sorted(live) if o < 100]
    tab_ids = [t for t in sorted(live) if t >= 100]
    if 999 in w.tab:
        t = w.tab[999]
        yield ("rectangular", {"stored table column lengths": [len(c) for c in t.cols()]}, "ragged input rejected")
    py = {}
    for o in vec_ids:
        try:
            py[o] = w.obj(o)
        except Diverged as ex:
            yield ("structure", str(ex), f"object {o} live")
            return
    for t in tab_ids:
        if t not in w.tab:
            yield ("structure", f"table {t} missing", "live")
            return
    # --- vectors: contents, dtype, name   (@target: the entity the last call wrote / created)
    tgt = target_entity(w, last_act)
    for o in vec_ids:
        where = "@target" if o in tgt else "@other"
        v = py[o]
        kind = post["kind"][o - 1]
        exp = [conc(x, kind) for x in post["heap"][post["store"][o - 1] - 1]]
        got = list(v)
        if len(got) != len(exp) or not all(_same(a, b) for a, b in zip(got, exp)):
            yield ("contents" + where, {"object": o, "values": got}, exp)
        sch = v.schema()
        gk = None if sch is None else (kind_of(sch), bool(sch.nullable))
        if sch is None and not exp:
            pass        # an empty vector that was never typed has no dtype to compare
        elif gk != (kind, post["nullable"][o - 1]):
            yield ("dtype" + where, {"object": o, "dtype": gk}, [kind, post["nullable"][o - 1]])
        nm = post["name"][o - 1]
        if v.name != (None if nm == "-" else nm):
            yield ("name" + where, {"object": o, "name": v.name}, nm)
    # --- sharing relation (which vectors use the same tuple)
    for a in vec_ids:
        for b in vec_ids:
            if a < b:
                same_spec = post["store"][a - 1] == post["store"][b - 1]
                same_py = py[a]._underlying is py[b]._underlying
                if len(py[a]._underlying) == 0 and len(py[b]._underlying) == 0:
                    continue    # CPython interns the empty tuple: identity says nothing about empty storage
                if same_spec != same_py:
                    yield ("sharing", {"objects": [a, b], "share": same_py}, same_spec)
    # --- tables: structure, length, names, rectangularity, row views
    for t in tab_ids:
        tab = w.tab[t]
        cs = post["cols"][str(t)]
        cols = tab.cols()
        if len(cols) != len(cs) or any(cols[i] is not py[c] for i, c in enumerate(cs)):
            yield ("structure", {"table": t, "columns": "not the expected column objects"}, cs)
            continue
        for c in cs:
            if c in w.vec and w.vec[c] is not py[c]:
                yield ("structure", {"table": t, "held view": c}, "live view is the column object")
        tlen = post["tlen"][str(t)]
        if len(tab) != tlen or any(len(c) != tlen for c in cols):
            yield ("rectangular", {"table": t, "len": len(tab), "column lengths": [len(c) for c in cols]}, tlen)
        if tab.shape != (tlen, len(cs)):
            yield ("rectangular", {"table": t, "shape": tab.shape}, [tlen, len(cs)])
        for r in range(tlen):
            rowc = [list(c)[r] for c in cols]
            if not all(_same(x, y) for x, y in zip(list(tab[r]), rowc)):
                yield ("row_view", {"table": t, "row": r, "indexed": list(tab[r])}, rowc)
        it = [list(r) for r in tab]
        exp_rows = [[list(c)[r] for c in cols] for r in range(tlen)]
        if len(it) != len(exp_rows) or any(not all(_same(x, y) for x, y in zip(a, b)) for a, b in zip(it, exp_rows)):
            yield ("row_view", {"table": t, "iterated": it}, exp_rows)
    # --- alias registry projected onto spec identities
    ident = {}
    for o in vec_ids:
        ident[id(py[o])] = o
    for t in tab_ids:
        ident[id(w.tab[t])] = t
    key_sid = {}
    for o in vec_ids:
        key_sid[id(py[o]._underlying)] = post["store"][o - 1]
    for t in tab_ids:
        key_sid[id(w.tab[t]._underlying)] = post["tsid"][str(t)]
    for s, tup in w.tup.items():
        key_sid[id(tup)] = s
    got_reg = {}
    for key, refs in list(_ALIAS_TRACKER._registry.items()):
        members = []
        for r in refs:
            obj = r()
            if obj is not None:
                members.append(obj)
        del refs
        if not members:
            continue
        ids = sorted(ident.get(id(m), -1) for m in members)
        del members
        if any(i == -1 for i in ids):
            if strict_registry:
                yield ("registry", {"key": "some identity", "members": ids}, "only live, known objects are registered")
            continue
        if key not in key_sid:
            yield ("registry", {"stale identity still lists live objects": ids},
                   "an identity no live object uses has no live registrations")
            continue
        got_reg.setdefault(key_sid[key], []).extend(ids)
    exp_reg = {s + 1: sorted(m) for s, m in enumerate(post["reg"]) if m}
    got_reg = {s: sorted(m) for s, m in got_reg.items()}
    for s_, members in got_reg.items():
        extra = [m for m in members if m not in exp_reg.get(s_, [])]
        if extra:
            # an object registered under an identity it does not use: the true users of that
            # identity would be refused although nothing shares their storage
            yield ("registry", {"identity": s_, "registered": members, "spurious": extra}, exp_reg.get(s_, []))
    missing = {str(k): [m for m in v if m not in got_reg.get(k, [])] for k, v in exp_reg.items()}
    missing = {k: v for k, v in missing.items() if v}
    if missing:
        # under-registration only lets a shared write go copy-on-write (allowed): a note, not a violation
        yield ("note_unregistered", missing, "registered")
    # --- fingerprint memo presence
    for o in vec_ids:
        has = getattr(py[o], "_fp", None) is not None
        if has != post["fpv"][o - 1]:
            yield ("fp_memo", {"object": o, "memo": has}, post["fpv"][o - 1])


def final_fingerprints(w, post):
    """C16: fingerprint() equals the fingerprint of an object rebuilt from plain values."""
    live = set(post["live"])
    for o in sorted(live):
        if o < 100:
            v = w.obj(o)
            if v.fingerprint() != Vector(list(v)).fingerprint():
                yield ("fp_value", {"object": o, "values": list(v)}, "fingerprint of a rebuilt vector")
        elif o in w.tab:
            t = w.tab[o]
            ref = Table([Vector(list(c), name=c.name) for c in t.cols()])
            if t.fingerprint() != ref.fingerprint():
                yield ("fp_value", {"table": o, "columns": [list(c) for c in t.cols()]}, "fingerprint of a rebuilt table")


def replay_case(case, variant):
    """returns list of failures [(clause, step index, observed, expected, forms)]"""
    _ALIAS_TRACKER._registry.clear()
    w = World(variant)
    path = case["path"]
    fails = []
    for k, a in enumerate(path):
        last = k == len(path) - 1
        try:
            res = w.step(a)
        except Mismatch as m:
            if last:
                fails.append((m.clause, k, m.observed, m.expected, list(w.forms)))
            return fails            # reported on the shorter case whose last step this is
        except Diverged as d:
            if last:
                fails.append(("diverged", k, str(d), a, list(w.forms)))
            return fails
        except Exception as ex:    # noqa: BLE001
            if last:
                clause = {"Write": "write_error", "WriteNone": "write_error", "NewTable": "ragged_outcome", "SetAttr": "setattr_error",
                          "Lookup": "lookup"}.get(a["a"], "outcome")
                if a["a"] == "Write" and a.get("nm") == "byname":
                    clause = "lookup"      # the column's advertised accessor did not resolve as an item-assignment key
                fails.append((clause, k, f"raised {type(ex).__name__}: {ex}", a["res"], list(w.forms)))
            return fails
        if res != a["res"]:
            if last:
                if a["a"] in ("Write", "WriteRow", "WriteNone") and a["res"] == "Ok" and res == "Refused":
                    fails.append(("spurious_refusal", k, res, a["res"], list(w.forms)))
                elif a["a"] in ("Write", "WriteRow", "WriteNone") and a["res"] == "Refused" and res == "Ok":
                    # a shared write that is performed copy-on-write is allowed as long as it stays
                    # local; the histories diverge here, so nothing further is compared
                    fails.append(("note_cow_instead_of_refusal", k, res, a["res"], list(w.forms)))
                elif a["a"] == "NewTable" or (a["a"] == "SetAttr" and a["res"] == "Err"):
                    # a column / table of the wrong length was accepted (or a right one rejected)
                    fails.append(("ragged_outcome", k, res, a["res"], list(w.forms)))
                elif a["a"] == "SetAttr":
                    fails.append(("setattr_error", k, res, a["res"], list(w.forms)))
                elif a["a"] == "Lookup":
                    fails.append(("lookup", k, res, a["res"], list(w.forms)))
                else:
                    fails.append(("outcome", k, res, a["res"], list(w.forms)))
            return fails
    for clause, obs, exp in compare(w, case["post"], path[-1] if path else None):
        fails.append((clause, len(path) - 1, obs, exp, list(w.forms)))
    if not fails:
        for clause, obs, exp in final_fingerprints(w, case["post"]):
            fails.append((clause, len(path) - 1, obs, exp, list(w.forms)))
    w.vec.clear()
    w.tab.clear()
    w.tup.clear()
    return fails


def replay(cases_path, out_path, nvariants, palettes=("plain",)):
    global PALETTE
    fails, executed, per = [], 0, {}
    forms_seen = {}
    with open(cases_path) as f:
        for n, line in enumerate(f):
            case = json.loads(line)
            for var in range(nvariants * len(palettes)):
                PALETTE = case.get("palette", palettes[var % len(palettes)])
                variant = case.get("variant", n * 3 + (var // len(palettes)) * 5)
                fs = replay_case(case, variant)
                executed += 1
                for clause, k, obs, exp, forms in fs:
                    per[clause] = per.get(clause, 0) + 1
                    if per[clause] <= 25:
                        fails.append({"clause": clause, "case": case, "variant": variant, "palette": PALETTE, "step": k,
                                      "observed": obs, "expected": exp, "forms": forms})
    json.dump({"executed": executed, "failures": fails, "per_clause": per}, open(out_path, "w"), default=str)


if __name__ == "__main__":
    if sys.argv[1] == "replay":
        replay(sys.argv[2], sys.argv[3], int(sys.argv[4]) if len(sys.argv) > 4 else 1,
               tuple(sys.argv[5].split(",")) if len(sys.argv) > 5 else ("plain",))
    else:
        import drv_heap2
        drv_heap2.main(sys.argv)
