"""SerifJoin suite (C09 inner, C10 left/full, C11 cardinality)."""
import json
import os

import engine

ALL_EXPECTS = '{"one_to_one", "many_to_one", "one_to_many", "many_to_many", "bogus"}'


def mc(rep, tier):
    for mod, cfg, label in (
            [("MC_Join", "MC_Join_quick.cfg", "hash-join machine = definition, 1 key, <=3 rows"),
             ("MC_JoinLaws", "MC_JoinLaws_quick.cfg", "C09/C10 laws, 1 key, <=3 rows")] if tier == "quick" else
            [("MC_Join", "MC_Join_thorough.cfg", "hash-join machine = definition, 1 key, <=4 rows"),
             ("MC_Join", "MC_Join_2keys.cfg", "hash-join machine = definition, 2 keys, <=2 rows"),
             ("MC_JoinLaws", "MC_JoinLaws_thorough.cfg", "C09/C10 laws, 1 key, <=4 rows"),
             ("MC_JoinLaws", "MC_JoinLaws_2keys.cfg", "C09/C10 laws, 2 keys, <=2 rows")]):
        r = engine.run_tlc(mod, cfg, coverage=(tier == "quick" and mod == "MC_JoinLaws"), timeout=1500)
        rep.add_mc(r, label)
    d = engine.run_tlc("MC_Join", "MC_Join_dev_LeftJoinWrongSide.cfg", expect_violation=True)
    rep.add_dev("LeftJoinWrongSide", d, {"MachineIsDefinition"})


def _gen_cfg(maxrows, nkeys, kinds, expects):
    return f"""INIT Init
NEXT Next
CONSTANTS
 JoinDevs = {{}}
 MaxRows = {maxrows}
 NKeys = {nkeys}
 Kinds = {kinds}
 Expects = {expects}
INVARIANT Emit
CHECK_DEADLOCK FALSE
"""


def gen(rep, tier, kinds, expects, clauses, hashseeds=(0,), scopes=None):
    if scopes is None:
        scopes = [(3, 1)] if tier == "quick" else [(4, 1), (2, 2)]
        if tier == "quick" and expects != ALL_EXPECTS:
            scopes.append((2, 2))
    sc = engine.scratch()
    mon = {"truth": [], "rule": [], "writeback": []}
    for maxrows, nkeys in scopes:
        r = engine.run_tlc("Gen_Join", _gen_cfg(maxrows, nkeys, kinds, expects), timeout=1500)
        rep.add_mc(r, f"Gen_Join rows<={maxrows} keys={nkeys}")
        cases = [dict(c, _n=i) for i, (_, c) in enumerate(r.prints)]
        cp = os.path.join(sc, "join_cases.json")
        json.dump(cases, open(cp, "w"))
        for c in cases[len(cases) // 2: len(cases) // 2 + 1]:
            rep.sample({"suite": "join.gen", "case": c})
        outs = []
        for hs in hashseeds:
            op = os.path.join(sc, f"join_out_{hs}.json")
            engine.run_driver("drv_rel.py", ["replay_join", cp, op], hashseed=hs)
            out = json.load(open(op))
            outs.append(out)
            rep.gen_cases += out["executed"]
            for k, v in out["skipped"].items():
                rep.skip(k, v)
            for f in out["failures"]:
                if f["clause"] in clauses:
                    rep.fail(f["clause"], "join.gen", {"case": f["case"], "tag": f["tag"], "palette": f["palette"],
                                                       "key_form": f["key_form"], "hashseed": hs},
                             f["observed"], f["expected"])
            mon["truth"] += out["truth"]
            mon["rule"] += out["rule"]
            mon["writeback"] += out.get("writeback", [])
    rep.extra.setdefault("hashseeds", list(hashseeds))
    return mon


SPEC_KEYS = ["id", "kind", "expect", "lk", "rk", "lrows", "rrows", "lw", "rw", "res", "errclass", "rows"]


def trace(rep, tier, seed, clauses, kinds=None, hashseed=0):
    sc = engine.scratch()
    raw = os.path.join(sc, "join_trace.ndjson")
    n, maxrows = (1200, 12) if tier == "quick" else (12000, 30)
    engine.run_driver("drv_rel.py", ["record_join", str(seed), str(n), str(maxrows), raw], hashseed=hashseed)
    evs = engine.read_ndjson(raw)
    mon = evs.pop()
    mon.setdefault("writeback", [])
    use = []
    for e in evs:
        if e.get("skipped"):
            rep.skip(e["skipped"])
            continue
        if kinds and e["kind"] not in kinds:
            continue
        use.append(e)
    path = os.path.join(sc, "join_trace_tlc.ndjson")
    engine.write_ndjson(path, use, SPEC_KEYS)
    r = engine.run_tlc("Trace_Join", "Trace_Join.cfg", env={"TRACE_FILE": path}, workers=1, tags=("VERDICT",),
                       timeout=1500)
    v = r.prints[0][1]
    if v["n"] != len(use):
        raise engine.MachineryError(f"Trace_Join consumed {v['n']} of {len(use)} events")
    rep.trace_events += len(use)
    if use:
        rep.sample({"suite": "join.trace", "event": {k: use[0][k] for k in SPEC_KEYS if k in use[0]}})
    byid = {e["id"]: e for e in use}
    for eid, clause in v["bad"]:
        if clause in clauses:
            e = byid[eid]
            rep.fail(clause, "join.trace", e, {"res": e["res"], "errclass": e["errclass"], "rows": e["rows"]},
                     "spec verdict: " + clause, direction="trace")
    # python-side clauses on recorded events (owned by other properties)
    for e in use:
        if "operands_unchanged" in clauses and not e["unchanged"]:
            rep.fail("operands_unchanged", "join.trace", e, "input table changed", "unchanged", direction="trace")
        if "names" in clauses and e["res"] == "ok" and e["rows"] and e.get("names") != e["lnames"] + e["rnames"]:
            rep.fail("names", "join.trace", e, e.get("names"), e["lnames"] + e["rnames"], direction="trace")
        if "rectangular" in clauses and e["res"] == "ok" and e.get("collens") and any(x != e["len"] for x in e["collens"]):
            rep.fail("rectangular", "join.trace", e, e["collens"], e["len"], direction="trace")
    return mon
