"""SerifGroup suite (C12 aggregate, C13 window)."""
import engine
import suite_rel

SPEC_KEYS = ["id", "op", "K", "V", "keys", "wkeys", "funs", "out", "calls", "nocalls"]
C12_CLAUSES = ("group_keys", "agg_value", "apply_calls", "reduce_value", "keys_first")
C13_CLAUSES = ("window_rows", "window_keys", "window_value")


def _cfg(rows, keys):
    return f"""INIT Init
NEXT Next
CONSTANTS
 MaxRows = {rows}
 NKeys = {keys}
INVARIANT Emit
CHECK_DEADLOCK FALSE
"""


def mc(rep, tier):
    cfgs = ["MC_Group_quick.cfg"] if tier == "quick" else ["MC_Group_thorough.cfg", "MC_Group_2keys.cfg"]
    for c in cfgs:
        rep.add_mc(engine.run_tlc("MC_Group", c, timeout=1800),
                   "partition machine = definition; window = aggregate joined back; conventions (" + c + ")")


def gen(rep, tier, clauses, hashseeds=(0,)):
    # keys=0: over=[] - no partition column, the whole table is one group
    scopes = [(3, 1), (2, 2), (3, 0)] if tier == "quick" else [(4, 1), (3, 2), (4, 0)]
    return suite_rel.gen(rep, "group", "Gen_Group", [(f"rows<={r} keys={k}", _cfg(r, k)) for r, k in scopes],
                         "replay_group", clauses, hashseeds=hashseeds)


def trace(rep, tier, seed, clauses, ops=None):
    n, maxrows = (1200, 16) if tier == "quick" else (12000, 40)
    sel = (lambda e: e["op"] in ops) if ops else None
    return suite_rel.trace(rep, "group", "Trace_Group", "Trace_Group.cfg", "record_group", [seed, n, maxrows],
                           SPEC_KEYS, clauses, hashseed=seed % 1000, select=sel)
