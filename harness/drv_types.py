"""Driver for SerifTypes bindings; runs with PYTHONPATH=<repo>/src in a fresh process.

  replay <cases.json> <out.json>   execute TLC-generated cases against serif, report mismatches
  record <seed> <n> <out.ndjson>   random executions of the library, recorded as trace events
"""
import itertools
import json
import random
import sys
import warnings

warnings.simplefilter("ignore")
from serif import Vector, DataType            # noqa: E402
from serif.typing import infer_dtype          # noqa: E402
import absval as A                            # noqa: E402

TAG_KIND = {v: k for k, v in A._KIND_TAG.items()}


def dt_abs(dt):
    return [A.kind_tag(dt.kind), bool(dt.nullable)]


def replay(cases_path, out_path):
    cases = json.load(open(cases_path))
    fails, n = [], 0
    truth = []
    for c in cases:
        if c["op"] == "infer":
            for pal in range(3):
                vals = [A.concrete(t, i + 1, pal) for i, t in enumerate(c["tags"])]
                exp = [c["kind"], c["nullable"]]
                n += 1
                got1 = dt_abs(infer_dtype(vals))
                v = Vector(vals)
                got2 = dt_abs(v.schema())
                if got1 != exp:
                    fails.append({"clause": "dtype_rule", "case": c, "palette": pal, "api": "infer_dtype",
                                  "observed": got1, "expected": exp})
                if got2 != exp:
                    fails.append({"clause": "dtype_rule", "case": c, "palette": pal, "api": "Vector(values).schema()",
                                  "observed": got2, "expected": exp})
                ev = A.truth_event(list(v), v.schema(), "Vector(values)")
                if ev:
                    truth.append(ev)
        elif c["op"] == "promote":
            kind = TAG_KIND[c["kind"]]
            for pal in range(3):
                val = A.concrete(c["tag"], 3, pal)
                n += 1
                got = dt_abs(DataType(kind, c["nullable"]).promote_with(val))
                exp = [c["rkind"], c["rnullable"]]
                if got != exp:
                    fails.append({"clause": "dtype_rule", "case": c, "palette": pal, "api": "DataType.promote_with",
                                  "observed": got, "expected": exp})
    json.dump({"executed": n, "failures": fails, "truth": truth}, open(out_path, "w"))


def record(seed, n, out_path):
    rnd = random.Random(seed)
    tags = A.TAGS
    evs = []
    eid = 0
    for _ in range(n):
        # biased towards small tag sets so that non-object results are common
        k = rnd.choice([1, 1, 2, 2, 2, 3, 4])
        pool = rnd.sample(tags, k)
        if rnd.random() < 0.5:
            pool = [t for t in pool if t in ("none", "bool", "int", "float", "complex")] or ["int", "none"]
        ln = rnd.randint(1, 30)
        ts = [rnd.choice(pool) for _ in range(ln)]
        vals = [A.concrete(t, rnd.randint(-3, 9), rnd.randint(0, 2)) for t in ts]
        v = Vector(vals)
        d = dt_abs(v.schema())
        eid += 1
        evs.append({"id": eid, "op": "infer", "tags": sorted(set(ts)), "kind": d[0], "nullable": d[1],
                    "seq": ts if ln <= 8 else None})
    # order independence for values of subclasses of the built-in kinds (reading: only
    # permutation invariance is demanded there)
    from datetime import datetime as _dtm
    subs = [(A.IntSub(4), 4), (A.FloatSub(1.5), 1.5), (A.StrSub("s"), "s"), (A.DateSub(2020, 2, 2), A.concrete("date", 1)),
            (A.DatetimeSub(2020, 2, 2, 3, 4), _dtm(2020, 2, 2, 3, 4))]
    plain = [1, 2.5, "a", A.concrete("date", 1), _dtm(2021, 1, 1, 1), True, None]
    for s, basev in subs:
        for p in plain:
            for q in plain:
                base = [s, p, q]
                res = []
                for perm in itertools.permutations(base):
                    res.append(dt_abs(infer_dtype(list(perm))))
                # a value of a subclass counts as a value of its built-in base class (a datetime subclass is a datetime,
                # not "a date"): the dtype is the one inferred with the plain base value in its place
                res.append(dt_abs(infer_dtype([basev, p, q])))
                eid += 1
                evs.append({"id": eid, "op": "perm", "dtypes": res, "values": [repr(x) for x in base]})
    with open(out_path, "w") as f:
        for e in evs:
            f.write(json.dumps(e) + "\n")


if __name__ == "__main__":
    if sys.argv[1] == "replay":
        replay(sys.argv[2], sys.argv[3])
    elif sys.argv[1] == "record":
        record(int(sys.argv[2]), int(sys.argv[3]), sys.argv[4])
