"""Driver for the table-level suites.

  replay <suite> <cases.json> <out.json>      suite in select | arith | tassign
  struct <out.json>                           structural laws of C02 (>>, <<, T) on enumerated small tables
  methods <out.json>                          attribute broadcasting of C05 (str/int/float/date methods and properties)
"""
import itertools
import json
import operator
import sys
import warnings
from datetime import date, timedelta

warnings.simplefilter("ignore")
from serif import Vector, Table, DataType                                  # noqa: E402
from serif.errors import SerifTypeError                                    # noqa: E402
import absval as A                                                         # noqa: E402
from tabutil import table_rows, table_view, vec_view, views_equal, Monitor  # noqa: E402
from drv_vec import Fails, attempt                                         # noqa: E402


def nm(x):
    return None if x == "-" else x


def mk_table(names, nrows=3, base=10):
    return Table([Vector([base * (i + 1) + r for r in range(nrows)], name=nm(n)) for i, n in enumerate(names)])


# ------------------------------------------------------------------------------ select (C07)
def replay_select(cases, F, mon):
    ex = 0
    rowkeys = [("t[0:2]", lambda: slice(0, 2)), ("t[::-1]", lambda: slice(None, None, -1)), ("t[1:1]", lambda: slice(1, 1)),
               ("t[list mask]", lambda: [True, False, True]), ("t[Vector mask]", lambda: Vector([False, True, True])),
               ("t[5:9]", lambda: slice(5, 9))]
    for c in cases:
        names, req = c["names"], c["req"]
        t = mk_table(names)
        before = table_view(t)
        key = tuple(req)
        st, r, e = attempt(lambda: t[key])
        ex += 1
        if not c["ok"]:
            if st == "ok":
                F.add("missing_column", c, r.column_names() if isinstance(r, Table) else repr(r), "an error (a requested column does not exist)")
        else:
            exp_cols = [[10 * i + rr for rr in range(3)] for i in c["idx"]]
            if st != "ok" or not isinstance(r, Table):
                F.add("select_cols", c, "raised " + type(e).__name__ if st != "ok" else type(r).__name__, exp_cols)
            else:
                got = [list(col) for col in r.cols()]
                if got != exp_cols:
                    F.add("select_cols", c, got, exp_cols)
                if r.column_names() != list(req):
                    F.add("names", c, r.column_names(), list(req), op="multi-column select")
                if any(a is b for a in r.cols() for b in t.cols()):
                    F.add("operands_unchanged", c, "selection shares column objects with its parent", "copies")
        # single name: first occurrence
        for name in set(req):
            st1, r1, e1 = attempt(lambda: t[name])
            ex += 1
            first = next((i for i, n in enumerate(names) if n == name), None)
            if first is None:
                if st1 == "ok":
                    F.add("missing_column", c, "t[%r] returned something" % name, "an error")
            elif st1 != "ok" or r1 is not t.cols()[first]:
                F.add("string_index", c, "not the first column carrying the name", first, name=name)
        # row selection and column selection commute
        for label, mk in rowkeys:
            a_st, a, a_e = attempt(lambda: t[mk()][key])
            b_st, b, b_e = attempt(lambda: t[key][mk()])
            ex += 2
            info = {"rows": label}
            if not c["ok"]:
                if a_st == "ok":
                    F.add("missing_column", c, "t[rows][cols] returned " + (str(a.column_names()) if isinstance(a, Table) else repr(a)), "an error", **info)
                if b_st == "ok":
                    F.add("missing_column", c, "t[cols][rows] returned something", "an error", **info)
                continue
            if a_st != "ok" or b_st != "ok":
                F.add("commute", c, [type(a_e).__name__ if a_e else "ok", type(b_e).__name__ if b_e else "ok"], "both succeed", **info)
                continue
            ra = table_rows(a) if isinstance(a, Table) else "not a table"
            rb = table_rows(b) if isinstance(b, Table) else "not a table"
            if ra != rb:
                F.add("commute", c, {"t[rows][cols]": ra, "t[cols][rows]": rb}, "equal", **info)
            elif isinstance(a, Table) and isinstance(b, Table) and ra and a.column_names() != b.column_names():
                F.add("commute", c, {"names": [a.column_names(), b.column_names()]}, "equal", **info)
            if isinstance(a, Table):
                mon.see(a, "t[rows][cols]")
        if not views_equal(before, table_view(t)):
            F.add("operands_unchanged", c, "selection changed the table", "unchanged")
    return ex


# ------------------------------------------------------------------------------ table arithmetic (C05, C18)
OPS = {"add": operator.add, "sub": operator.sub, "mul": operator.mul, "truediv": operator.truediv,
       "floordiv": operator.floordiv, "mod": operator.mod, "pow": operator.pow}


def replay_arith(cases, F, mon):
    ex = 0
    for n, c in enumerate(cases):
        n = c.get("_n", n)
        L = mk_table(c["lnames"], 2, 10)
        for opname, fn in OPS.items():
            if c["scalar"]:
                R = [3, 2.5, True][n % 3]
            else:
                R = mk_table(c["rnames"], 2, 3)
            lb = table_view(L)
            rb = table_view(R) if isinstance(R, Table) else None
            st, r, e = attempt(lambda: fn(L, R))
            ex += 1
            info = {"op": opname, "right": "scalar " + repr(R) if c["scalar"] else "table"}
            if not c["ok"]:
                if st == "ok":
                    F.add("table_width_mismatch", c, "returned a result", "an error (table widths differ)", **info)
                continue
            lcols = [list(x) for x in L.cols()]
            if c["scalar"]:
                exp = [[fn(x, R) for x in col] for col in lcols]
            else:
                rcols = [list(x) for x in R.cols()]
                exp = [[fn(x, y) for x, y in zip(a, b)] for a, b in zip(lcols, rcols)]
            if st != "ok" or not isinstance(r, Table):
                F.add("table_arith", c, "raised " + type(e).__name__ if st != "ok" else type(r).__name__, exp, **info)
                continue
            got = [list(x) for x in r.cols()]
            if not views_equal(got, exp):
                F.add("table_arith", c, got, exp, **info)
            if r.column_names() != [nm(x) for x in c["names"]]:
                F.add("names", c, r.column_names(), c["names"], **info)
            if not views_equal(lb, table_view(L)) or (rb is not None and not views_equal(rb, table_view(R))):
                F.add("operands_unchanged", c, "operand table changed", "unchanged", **info)
            mon.see(r, "table arithmetic", rule=True)
    ex += colwise_arith(F, mon)
    return ex


def colwise_arith(F, mon):
    """"arithmetic with a table as left operand is the same operation applied column by column": for columns of
    every kind (incl. dates + days, strings, nullable columns) the table operation must give, column by column,
    what the library's own vector operation gives - and fail when (and only when) a column operation fails."""
    from datetime import date as _d, timedelta as _td
    ex = 0
    kinds = {"int": [1, 2, 3], "int?": [1, None, 3], "float": [1.5, 2.5, 0.5], "str": ["a", "b", "c"], "bool": [True, False, True],
             "date": [_d(2020, 1, 31), _d(2021, 2, 28), _d(2019, 12, 31)], "date?": [_d(2020, 1, 31), None, _d(2019, 12, 31)]}
    scalars = [7, 2.5, "z", _td(days=2), True]
    for k1, v1 in kinds.items():
        for k2, v2 in kinds.items():
            if k2 < k1:
                continue
            for opname, fn in OPS.items():
                rights = [("scalar " + repr(R), R, None) for R in scalars]
                # a vector flagged as a ROW (v.T, as_row=True) is still a vector: no broadcasting across the columns
                rights += [("row vector of 2 (= the column count)", Vector([1, 2]).T, None), ("row vector of 3 (= the row count)", Vector([1, 2, 3], as_row=True), None)]
                rights += [("table of " + rk, None, rv) for rk, rv in (("int", [1, 2, 3]), ("int?", [2, None, 1]), ("str", ["x", "y", "z"]))]
                for rname, R, rv in rights:
                    L = Table({"p": list(v1), "q": list(v2)})
                    if R is None:
                        R = Table({"r": list(rv), "s": list(rv)})
                        rcols = list(R.cols())
                    else:
                        rcols = [R, R]
                    lb = table_view(L)
                    per = [attempt(lambda c=c, y=y: fn(c, y)) for c, y in zip(L.cols(), rcols)]
                    st, r, e = attempt(lambda: fn(L, R))
                    ex += 1
                    case = {"left columns": [k1, k2], "op": opname, "right": rname}
                    col_ok = all(p[0] == "ok" and isinstance(p[1], Vector) for p in per)
                    if not col_ok:
                        if st == "ok" and any(p[0] != "ok" for p in per):
                            F.add("table_arith", case, "table operation returned " + repr([list(x) for x in r.cols()] if isinstance(r, Table) else r),
                                  "an error (the column operation itself raises " + next(type(p[2]).__name__ for p in per if p[0] != "ok") + ")")
                        continue
                    exp = [list(p[1]) for p in per]
                    if st != "ok" or not isinstance(r, Table):
                        F.add("table_arith", case, "raised " + type(e).__name__ + ": " + str(e)[:80] if st != "ok" else type(r).__name__, exp)
                        continue
                    got = [list(x) for x in r.cols()]
                    if not views_equal(got, exp):
                        F.add("table_arith", case, got, exp)
                    elif [str(x.schema()) for x in r.cols()] != [str(p[1].schema()) for p in per]:
                        F.add("table_arith_dtype", case, [str(x.schema()) for x in r.cols()], [str(p[1].schema()) for p in per])
                    if not views_equal(lb, table_view(L)):
                        F.add("operands_unchanged", case, "operand table changed", "unchanged")
                    mon.see(r, "table arithmetic (column kinds)", rule=False)
                    if rv is None and r.column_names() != ["p", "q"]:
                        F.add("names", case, r.column_names(), ["p", "q"])
                # the reflected form: scalar op table = the reflected column operation, names kept
                for R in scalars:
                    L = Table({"p": list(v1), "q": list(v2)})
                    per = [attempt(lambda c=c: fn(R, c)) for c in L.cols()]
                    st, r, e = attempt(lambda: fn(R, L))
                    ex += 1
                    case = {"left": "scalar " + repr(R), "op": opname, "right columns": [k1, k2]}
                    if not all(p[0] == "ok" and isinstance(p[1], Vector) for p in per):
                        continue
                    if st != "ok" or not isinstance(r, Table):
                        F.add("table_arith", case, "raised " + type(e).__name__ + ": " + str(e)[:80] if st != "ok" else type(r).__name__, [list(p[1]) for p in per])
                        continue
                    if not views_equal([list(x) for x in r.cols()], [list(p[1]) for p in per]):
                        F.add("table_arith", case, [list(x) for x in r.cols()], [list(p[1]) for p in per])
                    if r.column_names() != ["p", "q"]:
                        F.add("names", case, r.column_names(), ["p", "q"])
    return ex


# ------------------------------------------------------------------------------ table assignment (C08)
def col_vals(kind, nullable):
    base = {"int": [1, 2], "float": [1.5, 2.5], "str": ["x", "y"]}[kind]
    return [base[0], None] if nullable else list(base)


VAL = {"int": 7, "float": 7.25, "str": "new", "none": None}
CONVT = {("int", "float"): float}


def replay_tassign(cases, F, mon):
    ex = 0
    for n, c in enumerate(cases):
        n = c.get("_n", n)
        kinds, nl, addressed, tags = c["kinds"], c["nullable"], c["addressed"], c["tags"]
        w = len(kinds)
        names = ["c%d" % i for i in range(w)]

        def build():
            return Table([Vector(col_vals(kinds[i], nl[i]), name=names[i]) for i in range(w)])
        values = [VAL[t_] for t_ in tags]
        idx0 = [a - 1 for a in addressed]
        forms = []
        if idx0 == list(range(w)):
            forms += [("t[0] = row", lambda t: t.__setitem__(0, list(values))),
                      ("t[0, :] = row", lambda t: t.__setitem__((0, slice(None)), tuple(values)))]
        if len(idx0) == 1:
            forms += [("t[0, i] = x", lambda t: t.__setitem__((0, idx0[0]), values[0])),
                      ("t[0, 'name'] = x", lambda t: t.__setitem__((0, names[idx0[0]]), values[0])),
                      ("t[0:1, i] = x (broadcast)", lambda t: t.__setitem__((slice(0, 1), idx0[0]), values[0]))]
        forms += [("t[0, [i..]] = row", lambda t: t.__setitem__((0, list(idx0)), list(values))),
                  ("t[0, [names]] = row", lambda t: t.__setitem__((0, [names[i] for i in idx0]), list(values)))]
        form = forms[n % len(forms)]
        t = build()
        before = table_view(t)
        fp_before = t.fingerprint()
        st, _, e = attempt(lambda: form[1](t))
        ex += 1
        info = {"form": form[0], "values": [repr(v) for v in values]}
        if not c["ok"]:
            if st == "ok":
                F.add("incompatible_accepted", c, table_rows(t), "SerifTypeError", **info)
            else:
                if not isinstance(e, SerifTypeError):
                    F.add("reject_class", c, type(e).__name__, "SerifTypeError", **info)
                if not views_equal(before, table_view(t)) or t.fingerprint() != fp_before:
                    F.add("table_atomic", c, table_rows(t), [list(r) for r in zip(*[col["vals"] for col in before["cols"]])], **info)
            continue
        if st != "ok":
            F.add("compatible_rejected", c, type(e).__name__ + ": " + str(e)[:80], "accepted", **info)
            continue
        # the same assignment when the LAST addressed column shares its storage with another live vector:
        # it must be refused with AliasError and change nothing (C01), also in the columns written "before" it
        # (a second REGISTERED owner of a column's storage: a vector built over that very tuple)
        for which in (idx0[1:] if len(idx0) > 1 else []):          # every addressed column but the first: the last, and the ones in the middle
            t3 = build()
            keep_alive = Vector(t3.cols()[which]._underlying)
            if keep_alive._underlying is t3.cols()[which]._underlying:
                b3 = table_view(t3)
                st3, _, e3 = attempt(lambda: form[1](t3))
                ex += 1
                if st3 == "ok":
                    F.add("shared_write_not_refused_note", c, "write to shared storage performed", "AliasError (or a local copy-on-write)", **info)
                elif type(e3).__name__ == "AliasError" and not views_equal(b3, table_view(t3)):
                    F.add("refused_changes_nothing", c, table_rows(t3), "table unchanged after AliasError", shared_column=which, **info)
                if list(keep_alive) != [x for x in b3["cols"][which]["vals"]]:
                    F.add("refused_changes_nothing", c, {"the sharer now shows": list(keep_alive)}, b3["cols"][which]["vals"], shared_column=which, **info)
        # ... and when a column that is NOT addressed shares its storage: the write to the others must still succeed (C15)
        unaddressed = [u for u in range(w) if u not in idx0]
        if unaddressed:
            t4 = build()
            u = unaddressed[0]
            if len(t4.cols()[u]) and True:
                partner = Vector(t4.cols()[u]._underlying)
                if partner._underlying is t4.cols()[u]._underlying:
                    st4, _, e4 = attempt(lambda: form[1](t4))
                    ex += 1
                    if st4 != "ok" and type(e4).__name__ == "AliasError":
                        F.add("spurious_refusal", c, "AliasError although no addressed column shares storage", "accepted", **info)
        for i in range(w):
            col = t.cols()[i]
            old = col_vals(kinds[i], nl[i])
            newk = c["rkinds"][i]
            conv = CONVT.get((kinds[i], newk), lambda x: x) if newk != kinds[i] else (lambda x: x)
            exp = [None if x is None else conv(x) for x in old]
            if i in idx0:
                exp[0] = values[idx0.index(i)]
            if not views_equal(list(col), exp):
                F.add("table_assign_cells", c, {"column": i, "values": [repr(x) for x in col]}, [repr(x) for x in exp], **info)
            got_dt = A.dtype_abs(col.schema())
            if got_dt != (newk, c["rnullable"][i]):
                F.add("promotion_dtype", c, {"column": i, "dtype": got_dt}, [newk, c["rnullable"][i]], **info)
            if col.name != names[i]:
                F.add("assign_shape", c, col.name, names[i], **info)
        if len(t) != 2 or any(len(col) != 2 for col in t.cols()):
            F.add("assign_shape", c, [len(col) for col in t.cols()], 2, **info)
        mon.see(t, "after table assignment")
    return ex


# ------------------------------------------------------------------------------ rename_columns (C08)
def replay_rename(cases, F, mon):
    ex = 0
    for n, c in enumerate(cases):
        names, olds, news = c["names"], c["olds"], c["news"]
        t = mk_table(names, 2)
        before = table_view(t)
        forms = [lambda: t.rename_columns(list(olds), list(news)), lambda: t.rename_columns(tuple(olds), tuple(news))]
        st, r, e = attempt(forms[n % 2])
        ex += 1
        got = t.column_names()
        if c["ok"]:
            if st != "ok":
                F.add("rename", c, "raised " + type(e).__name__, c["result"])
            elif got != c["result"]:
                F.add("rename", c, got, c["result"])
            # the accessor map follows at once
            if st == "ok":
                for i, nm_ in enumerate(c["result"]):
                    if c["result"].index(nm_) == i:
                        st2, col, e2 = attempt(lambda: getattr(t, nm_))
                        if st2 != "ok" or col is not t.cols()[i]:
                            F.add("lookup", c, "t.%s does not resolve to column %d after rename_columns" % (nm_, i), "resolves")
        else:
            if st == "ok":
                F.add("rename_reject", c, got, "an error (old name not found / length mismatch)")
            if got != names:
                F.add("rename_atomic", c, got, names)
            elif not views_equal(before, table_view(t)):
                F.add("rename_atomic", c, "table changed by a failed rename_columns", "unchanged")
    return ex


# ------------------------------------------------------------------------------ structure (C02)
def tuple_donors(F):
    """C01 / C15: a table built from the caller's OWN tuples (dict of tuples, list of tuples, >> dict, attribute assignment)
    never sits on those tuples: other vectors over the same tuple stay writable, and no write leaks either way"""
    from serif import AliasError
    ex = 0
    builders = {
        "Table({name: tuple})": lambda a, b: Table({"x": a, "y": b}),
        "Table([Vector(tuple), ..])": lambda a, b: Table([Vector(a, name="x"), Vector(b, name="y")]),
        "Table({..}) >> {name: tuple}": lambda a, b: Table({"x": list(a)}) >> {"y": b},
        "t.x = tuple": lambda a, b: _setattr(Table({"x": [0] * len(a), "y": list(b)}), "x", a),
        "t.x = Vector(tuple)": lambda a, b: _setattr(Table({"x": [0] * len(a), "y": list(b)}), "x", Vector(a)),
    }
    for n in (1, 2, 5):
        for bname, build in builders.items():
            for keep in ("vector first", "table first", "two tables"):
                a, b = tuple(range(10, 10 + n)), tuple(range(20, 20 + n))
                case = {"built by": bname, "rows": n, "order": keep}
                try:
                    if keep == "vector first":
                        va = Vector(a)
                        t = build(a, b)
                    elif keep == "table first":
                        t = build(a, b)
                        va = Vector(a)
                    else:
                        t = build(a, b)
                        va = build(a, b).cols()[0]
                except Exception as e:      # noqa: BLE001
                    F.add("construct", case, type(e).__name__ + ": " + str(e)[:60], "a table")
                    continue
                ex += 1
                col = t.cols()[0]
                try:
                    va[0] = 99
                except AliasError:
                    F.add("spurious_refusal", case, "AliasError writing a vector built over the caller's tuple (the table holds a copy)", "accepted")
                if list(col)[0] == 99:
                    F.add("leaked_write", case, {"table column": list(col)}, list(a))
                try:
                    t[0, 0] = 77
                except AliasError:
                    F.add("spurious_refusal", case, "AliasError writing a cell of the table", "accepted")
                if list(va)[0] == 77:
                    F.add("leaked_write", case, {"vector": list(va)}, "unchanged by the table write")
                if a != tuple(range(10, 10 + n)):
                    F.add("operands_unchanged", case, a, "the caller's tuple unchanged")
    return ex


def _setattr(t, name, value):
    setattr(t, name, value)
    return t


def fresh_writes(F):
    """C15: a brand-new vector or table shares storage with nothing, so its first write is accepted - whatever else the program
    holds at that moment (zero-row tables, empty selections, rows, transposes, tables that lost their columns ...) and whatever
    it built and dropped before.  The populations are kept ALIVE while the fresh objects are made and written."""
    from serif import AliasError
    ex = 0

    def base(k, n=3):
        return Table([Vector(list(range(10 * j, 10 * j + n)), name="c%d" % j) for j in range(k)])
    keepers = {
        "zero-row tables (a filter that keeps nothing)": lambda k: base(k)[base(k).c0 > 1000],
        "zero-row tables (an empty row slice)": lambda k: base(k)[3:],
        "zero-row tables (an all-False mask)": lambda k: base(k)[[False, False, False]],
        "tables of empty vectors": lambda k: Table([Vector([], name="c%d" % j) for j in range(k)]),
        "one-row tables": lambda k: base(k, 1),
        "column selections": lambda k: base(k)[tuple("c%d" % j for j in range(k))],
        "transposes": lambda k: base(3, k).T,
        "rows": lambda k: base(k)[1],
        "copies": lambda k: base(k).copy(),
        "stacked tables": lambda k: base(k) << base(k),
        "empty vectors": lambda k: Vector(list(range(k)))[0:0],
        "joined tables": lambda k: base(k).inner_join(base(k), "c0", "c0"),
    }
    for kname, keep in keepers.items():
        for k in (1, 2, 3, 4):
            held = []
            for _ in range(40):
                st, obj, e = attempt(lambda: keep(k))
                if st == "ok":
                    held.append(obj)
            for _ in range(30):
                attempt(lambda: keep(k))               # built and dropped: their storage ids are free again
            kept = []
            who = "%d %s with %d columns" % (len(held), kname, k)
            # fresh vectors first (nothing else is built in between, so their storage walks through the freed slots) ...
            for pattern in (3, 2, 0):
                for i in range(200):
                    for ln in ((k,) if i % 4 else (k, k + 1, 1)):
                        st, v, e = attempt(lambda: Vector([i + j for j in range(ln)]))
                        if st != "ok":
                            continue
                        ex += 1
                        if pattern and i % pattern == 0:
                            kept.append(v)          # vary the allocation pattern
                        try:
                            v[0] = -5
                        except AliasError:
                            F.add("spurious_refusal", {"alive meanwhile": who, "fresh vector of length": ln}, "AliasError on the first write to a brand-new vector", "accepted")
                        except Exception:      # noqa: BLE001
                            pass
            # ... then fresh tables
            for i in range(100):
                st, t, e = attempt(lambda: base(k))
                if st == "ok":
                    ex += 1
                    if i % 3 == 0:
                        kept.append(t)
                    try:
                        t[0, 0] = 5
                        t.c0[1] = 6
                    except AliasError:
                        F.add("spurious_refusal", {"alive meanwhile": who}, "AliasError on the first write to a brand-new table", "accepted")
                    except Exception:      # noqa: BLE001
                        pass
            del held, kept
    return ex


def edge_tables(F, mon):
    """zero-column left operands of >>, rows holding bytes-like cells, column requests that name an ATTRIBUTE"""
    ex = 0
    for mk0, label0 in ((lambda: Table(), "Table()"), (lambda: Table({}), "Table({})"), (lambda: Table({"a": [1, 2]})[("a",)] >> {"b": [3, 4]}, "one column >> dict")):
        for label, add, expcols in (("t >> {a: [1,2,3], b: [4,5,6]}", lambda t: t >> {"a": [1, 2, 3], "b": [4, 5, 6]}, [[1, 2, 3], [4, 5, 6]]),
                                    ("t >> Vector", lambda t: t >> Vector([1, 2, 3], name="a"), [[1, 2, 3]]),
                                    ("t >> {a: [7]}", lambda t: t >> {"a": [7]}, [[7]])):
            if label0 == "one column >> dict":
                continue
            st, r, e = attempt(lambda: add(mk0()))
            ex += 1
            case = {"left": label0, "operation": label}
            if st != "ok" or not isinstance(r, Table):
                continue            # rejecting is allowed
            got = [list(c) for c in r.cols()]
            n = len(expcols[0])
            if got != expcols or len(r) != n or r.shape != (n, len(expcols)) or [list(x) for x in r] != [[c[i] for c in expcols] for i in range(n)]:
                F.add("rectangular", case, {"cols": got, "len": len(r), "shape": r.shape, "rows": [list(x) for x in r]},
                      {"cols": expcols, "len": n, "shape": (n, len(expcols))})
            mon.see(r, label)
        # the in-place spelling: t >>= cols leaves t a rectangular table with the new columns (or fails)
        for label, addv, expcols in (("t >>= {a: [1,2,3], b: [4,5,6]}", {"a": [1, 2, 3], "b": [4, 5, 6]}, [[1, 2, 3], [4, 5, 6]]), ("t >>= Vector", Vector([1, 2, 3], name="a"), [[1, 2, 3]])):
            def inplace():
                t = mk0()
                t >>= addv
                return t
            st, r, e = attempt(inplace)
            ex += 1
            if st == "ok" and isinstance(r, Table):
                got = [list(c) for c in r.cols()]
                n = len(expcols[0])
                if got != expcols or len(r) != n or r.shape != (n, len(expcols)):
                    F.add("rectangular", {"left": label0, "operation": label}, {"cols": got, "len": len(r), "shape": r.shape}, {"cols": expcols, "len": n})
        st, r, e = attempt(lambda: mk0() >> {"a": [1, 2, 3], "b": ["x"]})
        ex += 1
        if st == "ok" and isinstance(r, Table) and len({len(c) for c in r.cols()}) > 1:
            F.add("ragged_outcome", {"left": label0, "operation": "t >> {a: 3 cells, b: 1 cell}"}, [len(c) for c in r.cols()], "rejected")
    # rows whose cells are bytes-like or otherwise iterable: ONE cell each
    cells = {"bytes": (b"p", b"q", [b"x", b"xyz", b""]), "bytearray": (bytearray(b"p"), bytearray(b"q"), [bytearray(b"zz"), bytearray()]),
             "str": ("p", "q", ["x", "xyz", ""])}       # (a list / tuple cell inside a row is spread by design: << appends sequences)
    for kind, (c0, c1, news) in cells.items():
        for new in news:
            for form, mkrow in (("tuple", lambda: (3, new)), ("list", lambda: [3, new])):
                t = Table({"n": [1, 2], "b": [c0, c1]})
                st, r, e = attempt(lambda: t << mkrow())
                ex += 1
                case = {"cell kind": kind, "appended row": repr(mkrow())}
                if st != "ok":
                    continue
                exp = [[1, 2, 3], [c0, c1, new]]
                if not isinstance(r, Table) or [list(c) for c in r.cols()] != exp:
                    F.add("append_rows", case, [list(c) for c in r.cols()] if isinstance(r, Table) else repr(r)[:80], exp)
                if [list(c) for c in t.cols()] != [[1, 2], [c0, c1]]:
                    F.add("operands_unchanged", case, "t changed by <<", "unchanged")
    # a column request that names no column raises - also when the name is an attribute of Table / Vector
    t = Table({"x": [1, 2], "y": ["a", "b"]})
    for nm in sorted(set(dir(Table)) | {"_underlying", "_length", "_name", "__len__"}):
        for label, get in (("t[name]", lambda: t[nm]), ("t[(name, 'x')]", lambda: t[(nm, "x")]), ("t[0:1][name]", lambda: t[0:1][nm])):       # (row['x'] is attribute access on the Row by design: not a column request)
            st, r, e = attempt(get)
            ex += 1
            if st == "ok":
                F.add("missing_column", {"requested": nm, "how": label}, repr(r)[:60], "an error (there is no such column)")
    return ex


def struct(out_path):
    F, mon, ex = Fails(), Monitor(), 0
    ex += tuple_donors(F)
    ex += fresh_writes(F)
    ex += edge_tables(F, mon)
    cells_dom = [None, 0, 1]
    for ncols in (1, 2, 3):
        for nrows in (0, 1, 2):
            for flat in itertools.islice(itertools.product(cells_dom, repeat=ncols * nrows), 0, None, 1 if ncols * nrows <= 4 else 7):
                cols = [list(flat[c * nrows:(c + 1) * nrows]) for c in range(ncols)]
                names = ["n%d" % i for i in range(ncols)]
                try:
                    t = Table([Vector(list(col), name=names[i]) for i, col in enumerate(cols)])
                except Exception as e:     # noqa: BLE001
                    F.add("construct", {"cols": cols}, type(e).__name__, "a table")
                    continue
                case = {"cols": cols}
                ex += 1
                if len(t) != nrows or t.shape != (nrows, ncols) or any(len(c) != nrows for c in t.cols()):
                    F.add("rectangular", case, {"len": len(t), "shape": t.shape}, [nrows, ncols])
                st, rows, e = attempt(lambda: [list(r) for r in t])
                exp_rows = [[col[r] for col in cols] for r in range(nrows)]
                if st != "ok" or not views_equal(rows, exp_rows):
                    F.add("row_view", case, type(e).__name__ if st != "ok" else rows, exp_rows, how="iteration")
                for r in range(nrows):
                    st, row, e = attempt(lambda: list(t[r]))
                    if st != "ok" or not views_equal(row, exp_rows[r]):
                        F.add("row_view", case, type(e).__name__ if st != "ok" else row, exp_rows[r], how="t[i]")
                    st, row, e = attempt(lambda: list(t[r - nrows]))
                    if st != "ok" or not views_equal(row, exp_rows[r]):
                        F.add("row_view", case, type(e).__name__ if st != "ok" else row, exp_rows[r], how="t[i - n]")
                # positions the columns do not have are not rows either: t[n], t[-n-1], t[n, 0] raise (IndexError), they do not wrap
                for bad in (nrows, -nrows - 1, nrows + 3):
                    for label, mk in (("t[%d]" % bad, lambda: list(t[bad])), ("t[%d, 0]" % bad, lambda: t[bad, 0]), ("t[%d, :]" % bad, lambda: list(t[bad, :]))):
                        st, row, e = attempt(mk)
                        ex += 1
                        if st == "ok":
                            F.add("row_view", case, {label: row}, "IndexError (the table has %d rows)" % nrows, how="out of range")
                # >> appends columns and leaves existing ones untouched
                newcol = [5] * nrows
                for label, mk in (("t >> Vector", lambda: t >> Vector(list(newcol), name="z")),
                                  ("t >> {name: list}", lambda: t >> {"z": list(newcol)}),
                                  ("t >> list", lambda: t >> list(newcol)),
                                  # a new column that is NAMED like an existing one is still appended (repeated names are legal)
                                  ("t >> {existing name: list}", lambda: t >> {names[0]: list(newcol)}),
                                  ("t >> {Existing Name: list}", lambda: t >> {names[0].upper(): list(newcol)}),
                                  ("t >> {last name: list}", lambda: t >> {names[-1]: list(newcol)}),
                                  ("t >> Vector named like a column", lambda: t >> Vector(list(newcol), name=names[0])),
                                  ("t >> table with a column named like one", lambda: t >> Table([Vector(list(newcol), name=names[-1])])),
                                  ("t >>= {existing name: list}", lambda: _irshift(Table([Vector(list(col), name=names[i]) for i, col in enumerate(cols)]), {names[0]: list(newcol)}))):
                    if nrows == 0 and not label.startswith("t >> {"):
                        continue
                    st, r, e = attempt(mk)
                    ex += 1
                    if st != "ok" or not isinstance(r, Table):
                        F.add("stack", case, type(e).__name__ if st != "ok" else type(r).__name__, "a table with one more column", how=label)
                        continue
                    got = [list(c) for c in r.cols()]
                    if not views_equal(got, cols + [newcol]):
                        F.add("stack", case, got, cols + [newcol], how=label)
                    if r.column_names()[:ncols] != names:
                        F.add("names", case, r.column_names(), names, how=label)
                    if not views_equal([list(c) for c in t.cols()], cols):
                        F.add("operands_unchanged", case, "t changed by >>", "unchanged", how=label)
                # donors handed to >> / Table(...) are operands too: contents, NAME and dtype must survive (C01),
                # whether the call succeeds or is refused
                for dname in (None, "d"):
                    for dl in (nrows, nrows + 1):
                        donor = Vector([5] * dl, name=dname)
                        dv = vec_view(donor)
                        for label, mk in (("t >> {name: Vector}", lambda: t >> {"z": donor}), ("t >> Vector", lambda: t >> donor),
                                          ("Table({name: Vector})", lambda: Table({"z": donor})),
                                          ("Table([.., Vector])", lambda: Table(list(t.cols()) + [donor]))):
                            st, r, e = attempt(mk)
                            ex += 1
                            if not views_equal(dv, vec_view(donor)):
                                F.add("operands_unchanged", case, {"donor after " + label: vec_view(donor)}, dv, how=label)
                                if donor.name != dname:
                                    F.add("names", case, {"the caller's vector is now named": donor.name}, dname, how=label)
                                donor = Vector([5] * dl, name=dname)
                                dv = vec_view(donor)
                            if st == "ok" and isinstance(r, Table) and any(col is donor for col in r.cols()):
                                F.add("operands_unchanged", case, "the table holds the donor object itself", "a snapshot", how=label)
                            if not views_equal([list(c) for c in t.cols()], cols) or t.column_names() != names:
                                F.add("operands_unchanged", case, "t changed by " + label, "unchanged", how=label)
                # wrong length is rejected rather than stored
                st, r, e = attempt(lambda: t >> {"z": [5] * (nrows + 1)})
                ex += 1
                if st == "ok" and isinstance(r, Table):
                    F.add("ragged_outcome", case, [len(c) for c in r.cols()], "rejected", how=">> dict with a longer column")
                st, r, e = attempt(lambda: t >> Vector([5] * (nrows + 1)))
                if st == "ok" and isinstance(r, Table) and len({len(c) for c in r.cols()}) > 1:
                    F.add("ragged_outcome", case, [len(c) for c in r.cols()], "rejected", how=">> vector of another length")
                # << appends a row to every column
                row = [9 if (cols[c] and isinstance(cols[c][0], int)) or not cols[c] else 9 for c in range(ncols)]
                st, r, e = attempt(lambda: t << list(row))
                ex += 1
                if st != "ok" or not isinstance(r, Table):
                    F.add("append_rows", case, type(e).__name__ + ": " + str(e)[:60] if st != "ok" else type(r).__name__, "a table with one more row")
                else:
                    got = [list(c) for c in r.cols()]
                    if not views_equal(got, [col + [row[i]] for i, col in enumerate(cols)]):
                        F.add("append_rows", case, got, [col + [row[i]] for i, col in enumerate(cols)])
                    if len(r) != nrows + 1:
                        F.add("rectangular", case, len(r), nrows + 1, how="<<")
                    mon.see(r, "t << row")
                st, r, e = attempt(lambda: t << [9] * (ncols + 1))
                if st == "ok":
                    F.add("ragged_outcome", case, "accepted a row of the wrong width", "rejected", how="<<")
                # every way of handing a row over (sized and one-shot iterables, a Row of another table, a table of
                # rows) x width too short / right / too long: rejected, or appended to EVERY column; never ragged,
                # never a lost column, never a silently dropped cell
                for width in (ncols - 1, ncols, ncols + 1):
                    if width < 0:
                        continue
                    cells = [9] * width
                    forms = {"list": lambda: list(cells), "tuple": lambda: tuple(cells), "Vector": lambda: Vector(list(cells)) if cells else None,
                             "generator": lambda: (x for x in cells), "iter(list)": lambda: iter(list(cells)), "map": lambda: map(int, list(cells)),
                             "Row of another table": lambda: Table([Vector([9], name="n%d" % k) for k in range(width)])[0] if width else None,
                             "one-row table": lambda: Table([Vector([9], name="n%d" % k) for k in range(width)]) if width else None,
                             "two-row table": lambda: Table([Vector([9, 9], name="n%d" % k) for k in range(width)]) if width else None}
                    for fname, mkrow in forms.items():
                        rowobj = mkrow()
                        if rowobj is None:
                            continue
                        st, r, e = attempt(lambda: t << rowobj)
                        ex += 1
                        how = "t << %s of %d cells (table has %d columns)" % (fname, width, ncols)
                        if not views_equal([list(c) for c in t.cols()], cols) or t.column_names() != names:
                            F.add("operands_unchanged", case, "t changed by <<", "unchanged", how=how)
                        if st != "ok":
                            continue              # rejecting a form is always allowed
                        if not isinstance(r, Table):
                            F.add("append_rows", case, type(r).__name__, "a table", how=how)
                            continue
                        got = [list(c) for c in r.cols()]
                        add = 2 if fname == "two-row table" else 1
                        if len({len(c) for c in got}) > 1:
                            F.add("rectangular", case, [len(c) for c in got], "columns of one length", how=how)
                        elif width != ncols:
                            F.add("ragged_outcome", case, "accepted: " + repr(got), "rejected (the row does not fit the table)", how=how)
                        elif not views_equal(got, [col + [9] * add for col in cols]):
                            F.add("append_rows", case, got, [col + [9] * add for col in cols], how=how)
                # transposing twice gives back the cells (needs at least one row and one column)
                if nrows >= 1:
                    st, r, e = attempt(lambda: t.T.T)
                    ex += 1
                    if st != "ok" or not isinstance(r, Table):
                        F.add("transpose", case, type(e).__name__ if st != "ok" else type(r).__name__, cols)
                    elif not views_equal([list(c) for c in r.cols()], cols):
                        F.add("transpose", case, [list(c) for c in r.cols()], cols)
                    st, r1, e = attempt(lambda: t.T)
                    if st == "ok" and isinstance(r1, Table) and (len(r1) != ncols or len(r1.cols()) != nrows):
                        F.add("transpose", case, [len(r1), len(r1.cols())], [ncols, nrows])
    json.dump({"executed": ex, "failures": F.items, "per_clause": F.per, "skipped": F.skipped, **mon.dump()}, open(out_path, "w"), default=str)


def _irshift(t, x):
    t >>= x
    return t


# ------------------------------------------------------------------------------ attribute broadcasting (C05)
ARGS = {
    "str": {"center": (9,), "count": ("a",), "encode": (), "endswith": ("a",), "expandtabs": (), "find": ("a",), "format": (),
            "index": ("a",), "join": (["x", "y"],), "ljust": (7,), "rjust": (7,), "lstrip": (), "partition": ("a",),
            "removeprefix": ("a",), "removesuffix": ("a",), "replace": ("a", "b"), "rfind": ("a",), "rindex": ("a",),
            "rpartition": ("a",), "rsplit": (), "rstrip": (), "split": (), "splitlines": (), "startswith": ("a",),
            "strip": (), "translate": ({97: 98},), "zfill": (6,), "format_map": ({},), "maketrans": ("a", "b")},
    "int": {"to_bytes": (4, "big"), "__add__": (1,)},
    "float": {"__add__": (1.0,), "__round__": (1,)},
    "date": {"replace": (), "strftime": ("%Y",), "isoformat": (), "__format__": ("",)},
}
# further argument lists per method ("with arbitrary arguments"): tuples of alternatives, start / end positions,
# separators and limits, fill characters, codecs ...
MORE_ARGS = {
    "str": {"startswith": [(("a", "B"),), (("ap", "ca"),), ("a", 1), ("p", 1, 3), ((),)], "endswith": [(("e", "a"),), ("a", 0, 1), (("ie", "na", ""),)],
            "count": [("a", 1), ("a", 0, 3), ("",)], "find": [("a", 1), ("a", 1, 3), ("",)], "rfind": [("a", 0, 2)], "index": [("a", 0)],
            "split": [("a",), (None, 1), (" ", 1), ("p", -1), (",", 1), ("X", 1)], "rsplit": [(" ", 1), (None, 1), (",", 1), ("X", 1), (",", 2)],
            "rindex": [("a",)], "lower": [()], "upper": [()], "strip": [("a",), ("ae",), (None,)],
            "lstrip": [("a",), ("ab",)], "rstrip": [("e",), ("a e",)], "replace": [("a", "b", 1), ("", "-"), ("a", "")],
            "center": [(9, "*"), (0,)], "ljust": [(7, "."), (0,)], "rjust": [(7, "0")], "zfill": [(0,), (12,)],
            "encode": [("utf-8",), ("ascii", "ignore")], "expandtabs": [(2,)], "splitlines": [(True,)], "partition": [(" ",), ("pp",)],
            "rpartition": [(" ",)], "join": [(("x", "y"),), ("",), ([],)], "removeprefix": [("apple ",), ("",)], "removesuffix": [("a",), ("pie",)],
            "translate": [({97: None},), ({},)], "title": [()], "swapcase": [()], "casefold": [()]},
    "int": {"to_bytes": [(8, "little"), (2, "big")], "bit_length": [()], "conjugate": [()]},
    "float": {"hex": [()], "is_integer": [()], "as_integer_ratio": [()]},
    "date": {"replace": [(2000,), (2001, 2, 3)], "strftime": [("%d/%m/%y",), ("",)], "isoformat": [()], "weekday": [()], "toordinal": [()]},
}
VALUES = {"str": ["apple pie", "Banana", "a", "", "cab a", "a,b,c d,e", " x  y z ", "aXbXc",
                  # word boundaries, case pairs and digits as Python's own methods see them
                  "they're o'neil's", "x1y 2nd 3D", "mc-donald_o.k", "\u4e2da\u6587b c\u4e2d", "stra\u00dfe \u01c6ur", "\u00e9cole d'\u00e9t\u00e9", "tab\tsep\nline", "\u0130i \u03c3\u03c2"], "int": [5, -3, 0, 1024], "float": [1.5, -2.25, 0.0, 8.0],
          "date": [date(2020, 2, 29), date(1999, 12, 31), date(2024, 1, 1)]}


def methods(out_path):
    F, ex = Fails(), 0
    vec_api = set(dir(Vector))
    for tag, pyt in (("str", str), ("int", int), ("float", float), ("date", date)):
        for name in sorted(dir(pyt)):
            if name.startswith("_"):
                continue
            cls_attr = getattr(pyt, name)
            base = VALUES[tag]
            for size in (0, 1, 2, 7, 1001):
                for nonepos in ([()] if size == 0 else [(), (0,), (size - 1,)] + ([(0, size - 1)] if size >= 2 else [])):
                    vals = [None if i in nonepos else base[i % len(base)] for i in range(size)]
                    if size == 0:
                        continue
                    if all(v is None for v in vals):
                        continue
                    v = Vector(list(vals))
                    shadow = name in vec_api and not hasattr(type(v), name + "__dummy")
                    typed_has = name in type(v).__dict__
                    if name in vec_api and not typed_has:
                        F.skip("name shadowed by Vector's own API (not reachable through broadcasting)")
                        continue
                    args = ARGS.get(tag, {}).get(name, ())
                    try:
                        if callable(cls_attr):
                            exp = [None if x is None else getattr(x, name)(*args) for x in vals]
                        else:
                            exp = [None if x is None else getattr(x, name) for x in vals]
                    except Exception:       # noqa: BLE001 - Python itself rejects the canned arguments
                        F.skip("python rejects the canned arguments")
                        break
                    case = {"type": tag, "attr": name, "size": size, "none_at": list(nonepos)}
                    st, r, e = attempt(lambda: getattr(v, name)(*args) if callable(cls_attr) else getattr(v, name))
                    ex += 1
                    if st != "ok":
                        F.add("broadcast", case, "raised " + type(e).__name__ + ": " + str(e)[:60], "element-wise application")
                        break
                    got = list(r) if isinstance(r, Vector) else r
                    if not isinstance(r, Vector) or len(got) != len(exp) or not all(A.same_value(g, x) or g == x for g, x in zip(got, exp)):
                        F.add("broadcast", case, repr(got)[:120], repr(exp)[:120])
                        break
    # the same broadcast with other argument lists
    for tag, table in MORE_ARGS.items():
        for name, arglists in table.items():
            if name in vec_api and name not in type(Vector(list(VALUES[tag]))).__dict__:
                continue
            for args in arglists:
                for size in (1, 5, 70):
                    for nonepos in ((), (0,)):
                        vals = [None if i in nonepos else VALUES[tag][i % len(VALUES[tag])] for i in range(size)]
                        if all(x is None for x in vals):
                            continue
                        try:
                            exp = [None if x is None else getattr(x, name)(*args) for x in vals]
                        except Exception:       # noqa: BLE001
                            F.skip("python rejects the canned arguments")
                            continue
                        v = Vector(list(vals))
                        before = list(v)
                        st, r, e = attempt(lambda: getattr(v, name)(*args))
                        ex += 1
                        case = {"type": tag, "attr": name, "args": repr(args), "size": size, "none_at": list(nonepos)}
                        if st != "ok":
                            F.add("broadcast", case, "raised " + type(e).__name__ + ": " + str(e)[:60], "element-wise application")
                            continue
                        got = list(r) if isinstance(r, Vector) else r
                        if not isinstance(r, Vector) or len(got) != len(exp) or not all(A.same_value(g, x) or g == x for g, x in zip(got, exp)):
                            F.add("broadcast", case, repr(got)[:120], repr(exp)[:120])
                        if list(v) != before:
                            F.add("operands_unchanged", case, "the vector changed", "unchanged")
    # elements narrower than the vector's kind (an int inside a float vector, a date inside a datetime vector): the method is
    # applied to THE ELEMENT, whatever the dtype says
    from datetime import datetime as _dtm
    mixed = {"float holding ints": ([0.5, 1, None, 2.5, 4], float), "int holding bools": ([3, True, None, False, 8], int),
             "datetime holding dates": ([_dtm(2020, 1, 1, 5), date(2020, 1, 2), None, _dtm(2021, 3, 4, 5, 6)], _dtm),
             "complex holding ints": ([1 + 2j, 3, None, 2.5], complex)}
    for mname, (vals, pyt) in mixed.items():
        for name in sorted(dir(pyt)):
            if name.startswith("_") or name in vec_api or name in ("today", "now", "utcnow"):
                continue
            try:
                exp = [None if x is None else (getattr(x, name)() if callable(getattr(x, name)) else getattr(x, name)) for x in vals]
            except Exception:      # noqa: BLE001
                continue           # needs arguments, or some element's class does not have it
            v = Vector(list(vals))
            st, r, e = attempt(lambda: getattr(v, name)() if callable(getattr(pyt, name)) else getattr(v, name))
            ex += 1
            case = {"type": mname, "attr": name}
            if st != "ok":
                F.add("broadcast", case, "raised " + type(e).__name__ + ": " + str(e)[:60], repr(exp)[:100])
            elif not isinstance(r, Vector) or not all(A.same_value(g, x) or g == x for g, x in zip(list(r), exp)) or len(r) != len(exp):
                F.add("broadcast", case, repr(list(r) if isinstance(r, Vector) else r)[:100], repr(exp)[:100])
    # dates + days of another length is an error like any other length mismatch - nothing is truncated
    for nd, nn in ((3, 2), (2, 3), (1, 0), (0, 1), (3, 1)):
        dv = Vector([date(2020, 1, 1 + i) for i in range(nd)]) if nd else Vector([], dtype=date)
        for label, other in (("int Vector", Vector(list(range(nn))) if nn else Vector([], dtype=int)), ("list", list(range(nn)))):
            st, r, e = attempt(lambda: dv + other)
            ex += 1
            if st == "ok" and isinstance(r, Vector) and nd != nn and nd and nn:
                F.add("length_mismatch", {"type": "date", "attr": "dates + " + label, "lengths": [nd, nn]}, list(r), "an error (operand lengths differ)")
    # date + days
    for size in (1, 3, 1001):
        for nonepos in ((), (0,)):
            vals = [None if i in nonepos else VALUES["date"][i % 3] for i in range(size)]
            if all(x is None for x in vals):
                continue
            v = Vector(list(vals))
            for label, other, expf in (("dates + int", 10, lambda x, i: x + timedelta(days=10)),
                                       ("dates + int vector", Vector([i % 5 for i in range(size)]), lambda x, i: x + timedelta(days=i % 5)),
                                       ("dates + timedelta", timedelta(days=2), lambda x, i: x + timedelta(days=2))):
                st, r, e = attempt(lambda: v + other)
                ex += 1
                exp = [None if x is None else expf(x, i) for i, x in enumerate(vals)]
                case = {"type": "date", "attr": label, "size": size, "none_at": list(nonepos)}
                if st != "ok":
                    F.add("broadcast", case, "raised " + type(e).__name__ + ": " + str(e)[:60], "dates shifted")
                elif list(r) != exp:
                    F.add("broadcast", case, repr(list(r))[:100], repr(exp)[:100])
            # arithmetic between two NAMED vectors gives an unnamed result (C18) - also for the date + days form
            named, days = Vector(list(vals), name="start"), Vector([i % 5 for i in range(size)], name="days")
            for label, fn in (("dates + int vector", lambda: named + days), ("dates - dates", lambda: named - Vector(list(vals), name="other")),
                              ("dates == dates", lambda: named == Vector(list(vals), name="other")), ("dates < dates", lambda: named < Vector(list(vals), name="start"))):
                st, r, e = attempt(fn)
                ex += 1
                if st == "ok" and isinstance(r, Vector) and r.name is not None:
                    F.add("names", {"type": "date", "attr": label, "size": size}, r.name, None)
                if named.name != "start" or days.name != "days":
                    F.add("names", {"type": "date", "attr": label, "size": size}, [named.name, days.name], "operand names unchanged")
    json.dump({"executed": ex, "failures": F.items, "per_clause": F.per, "skipped": F.skipped, "truth": [], "rule": []},
              open(out_path, "w"), default=str)


def twice(out_path):
    """C01 on derived objects at several sizes (also beyond typical threshold constants): the same derivation asked
    twice gives two NEW, independent objects - a write through one shows neither in the other nor in the source."""
    F, ex = Fails(), 0
    for n in (1, 3, 70, 1100):
        def mk():
            return Table({"k": [i % 7 for i in range(n)], "v": [i for i in range(n)], "s": ["x%d" % (i % 3) for i in range(n)]})
        ops = {
            "sort_by(name)": lambda t: t.sort_by("k"),
            "sort_by(vector, reverse)": lambda t: t.sort_by(t.k, reverse=True),
            "copy()": lambda t: t.copy(),
            "t[:]": lambda t: t[:],
            "t[mask]": lambda t: t[[True] * len(t)],
            "t[names]": lambda t: t[("k", "v")],
            "t >> {..}": lambda t: t >> {"z": list(range(len(t)))},
            "aggregate": lambda t: t.aggregate(over="k", sum_over="v"),
            "window": lambda t: t.window(over="k", sum_over="v"),
            "inner_join": lambda t: t.inner_join(Table({"k": list(range(7)), "w": list(range(7))}), left_on="k", right_on="k"),
            "join": lambda t: t.join(Table({"k": list(range(7)), "w": list(range(7))}), left_on="k", right_on="k"),
            "full_join": lambda t: t.full_join(Table({"k": list(range(7)), "w": list(range(7))}), left_on="k", right_on="k", expect="many_to_one"),
            "t + 1": lambda t: t[("k", "v")] + 1,
        }
        for label, op in ops.items():
            t = mk()
            src = table_view(t)
            st, pair, e = attempt(lambda: (op(t), op(t)))
            ex += 1
            case = {"op": label, "rows": n}
            if st != "ok":
                F.add("derived_independent", case, "raised " + type(e).__name__ + ": " + str(e)[:60], "two results")
                continue
            a, b = pair
            if a is b or any(x is y for x in a.cols() for y in b.cols()) or any(x is y for x in a.cols() for y in t.cols()):
                F.add("derived_independent", case, "the two results (or result and source) share objects", "new objects")
                continue
            vb = table_view(b)
            st, _, e = attempt(lambda: a.cols()[0].__setitem__(0, 424242))
            if st != "ok":
                F.add("derived_independent", case, "write to a result refused: " + type(e).__name__, "writable")
                continue
            if not views_equal(vb, table_view(b)):
                F.add("derived_independent", case, "a write through the first result shows in the second", "independent")
            if not views_equal(src, table_view(t)):
                F.add("derived_independent", case, "a write through a result shows in the source", "independent")
        # vectors
        v = Vector(list(range(n)), name="v")
        vops = {"sort_by": lambda x: x.sort_by(), "copy": lambda x: x.copy(), "slice": lambda x: x[:], "neg": lambda x: -x,
                "add": lambda x: x + 1, "dropna": lambda x: x.dropna(), "fillna": lambda x: x.fillna(0), "unique": lambda x: x.unique(),
                "cast": lambda x: x.cast(float)}
        for label, op in vops.items():
            sv = vec_view(v)
            st, pair, e = attempt(lambda: (op(v), op(v)))
            ex += 1
            case = {"op": "Vector." + label, "rows": n}
            if st != "ok":
                continue
            a, b = pair
            if a is b or a is v:
                F.add("derived_independent", case, "same object returned", "new objects")
                continue
            vb = vec_view(b)
            st, _, e = attempt(lambda: a.__setitem__(0, a[0]))
            st, _, e = attempt(lambda: a.__setitem__(0, 77 if not isinstance(a[0], float) else 77.0))
            if st != "ok":
                F.add("derived_independent", case, "write to a result refused: " + type(e).__name__, "writable")
            elif not views_equal(vb, vec_view(b)) or not views_equal(sv, vec_view(v)):
                F.add("derived_independent", case, "a write through one result shows elsewhere", "independent")
    json.dump({"executed": ex, "failures": F.items, "per_clause": F.per, "skipped": F.skipped, "truth": [], "rule": [], "writeback": []},
              open(out_path, "w"), default=str)


def main():
    cmd = sys.argv[1]
    if cmd == "twice":
        return twice(sys.argv[2])
    if cmd == "struct":
        return struct(sys.argv[2])
    if cmd == "methods":
        return methods(sys.argv[2])
    suite, cases_path, out_path = sys.argv[2], sys.argv[3], sys.argv[4]
    cases = json.load(open(cases_path))
    F, mon = Fails(), Monitor()
    ex = {"select": replay_select, "arith": replay_arith, "tassign": replay_tassign, "rename": replay_rename}[suite](cases, F, mon)
    json.dump({"executed": ex, "failures": F.items, "per_clause": F.per, "skipped": F.skipped, **mon.dump()},
              open(out_path, "w"), default=str)


if __name__ == "__main__":
    main()
