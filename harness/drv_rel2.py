"""Sort and group drivers (second half of drv_rel.py)."""
import itertools
import json
import random
import warnings
from fractions import Fraction

warnings.simplefilter("ignore")
from serif import Vector, Table                                  # noqa: E402
import absval as A                                               # noqa: E402
from tabutil import table_rows, table_view, vec_view, views_equal, Monitor   # noqa: E402
from drv_rel import Side, conc, outcome_of, key_args, KEY_TAGS, MAXFAIL      # noqa: E402


class Fails:
    def __init__(self):
        self.items, self.per = [], {}

    def add(self, clause, case, observed, expected, extra=None):
        self.per[clause] = self.per.get(clause, 0) + 1
        if self.per[clause] <= MAXFAIL:
            self.items.append({"clause": clause, "case": case, "observed": observed, "expected": expected,
                               **(extra or {})})


# ----------------------------------------------------------------------------- sort
def sort_table(side, kidx, rev, na_last, variant):
    by, _ = key_args(side, kidx, variant % 3)
    if not isinstance(by, list) and variant % 2:
        by = [by]
    if len(set(rev)) == 1 and variant % 2 == 0:
        r = rev[0]
    else:
        r = list(rev) if variant % 4 < 2 else tuple(rev)
    return side.table.sort_by(by, reverse=r, na_last=na_last)


def replay_sort(cases_path, out_path):
    cases = json.load(open(cases_path))
    F, mon, executed = Fails(), Monitor(), 0
    for n, c in enumerate(cases):
        n = c.get("_n", n)
        K, rev, na_last, perm = c["K"], c["rev"], c["naLast"], c["perm"]
        nk = len(rev)
        tag = ["int", "str", "date", "float", "bool", "dtsame", "finf"][n % 7]
        pal = (n // 5) % 3
        variant = (n // 15) % 12
        rows = [list(k) + [i, (-1 if i % 3 == 1 else i)] for i, k in enumerate(K)]
        # payload columns under distinct names, one repeated name, no names at all, or the first key's name again:
        # "cells kept together" and "keeps every column name in order" hold for all of them
        names = ["s%d" % (i + 1) for i in range(nk)] + [["pos", "Pay Load"], ["pos", "pos"], [None, None], ["s1", "Pay Load"], [2023, 2.5], [("t", 1), False]][(n // 7) % 6]
        S = Side(rows, nk + 2, [tag] * nk + ["int", "str"], [pal] * nk + [0, 0], names)
        if tag == "bool":       # order-preserving on the key domain {1, 2}: 1 -> False, 2 -> True
            for cc in range(nk):
                S.cols[cc] = [None if r[cc] == -1 else (r[cc] == 2) for r in rows]
            S.table = Table([Vector(S.cols[cc], name=names[cc]) for cc in range(nk + 2)])
        info = {"tag": tag, "palette": pal, "variant": variant}
        before = table_view(S.table)
        st, res, err = outcome_of(lambda: sort_table(S, list(range(nk)), rev, na_last, variant))
        executed += 1
        if not views_equal(before, table_view(S.table)):
            F.add("operands_unchanged", c, "sort_by changed its input", "unchanged", info)
        if st != "ok":
            F.add("sort_perm", c, "raised " + err, perm, info)
            continue
        exp = [S.concrete_row(p - 1) for p in perm]
        got = table_rows(res)
        if not views_equal(got, exp):
            F.add("sort_perm", c, [r[nk] for r in got] if got and len(got[0]) > nk else got, [p - 1 for p in perm], info)
        if res.column_names() != names:
            F.add("names", c, res.column_names(), names, info)
        mon.see(res, "sort_by result")
        # sorting a sorted table changes nothing
        st2, res2, err2 = outcome_of(lambda: res.sort_by(names[:nk], reverse=list(rev), na_last=na_last))
        if st2 != "ok" or not views_equal(table_rows(res2), got):
            F.add("sort_idempotent", c, err2 or table_rows(res2), got, info)
        # Vector.sort_by obeys the same contract
        if nk == 1:
            col = list(S.cols[0])
            if tag == "int" and pal == 0:      # equal-but-distinguishable values make stability observable
                col = [float(x) if (x is not None and i % 2) else x for i, x in enumerate(col)]
            v = Vector(col, name="kv")
            vb = vec_view(v)
            st3, r3, err3 = outcome_of(lambda: v.sort_by(reverse=rev[0], na_last=na_last))
            executed += 1
            expv = [col[p - 1] for p in perm]
            if st3 != "ok":
                F.add("vector_sort", c, "raised " + err3, expv, info)
            else:
                if not views_equal(list(r3), expv):
                    F.add("vector_sort", c, list(r3), expv, info)
                if r3.name != "kv":
                    F.add("names", c, r3.name, "kv", info)
                mon.see(r3, "Vector.sort_by result")
            if not views_equal(vb, vec_view(v)):
                F.add("operands_unchanged", c, "Vector.sort_by changed its input", "unchanged", info)
    json.dump({"executed": executed, "failures": F.items, "per_clause": F.per, "skipped": {}, **mon.dump()},
              open(out_path, "w"), default=str)


def record_sort(seed, n, maxrows, out_path):
    rnd = random.Random(seed)
    evs, mon = [], Monitor()
    for eid in range(1, n + 1):
        nk = rnd.choice([1, 1, 2, 3])
        kdom = rnd.choice([[-1, 0, 1], [0, 1, 2], [-1, 0, 1, 2, 3, 4, 5, 6, 7], [-1, 3]])
        nrows = rnd.randint(0, rnd.choice([2, 5, maxrows]))
        K = [[rnd.choice(kdom) for _ in range(nk)] for _ in range(nrows)]
        rev = [rnd.random() < .5 for _ in range(nk)]
        na_last = rnd.random() < .6
        tags = [rnd.choice(["int", "str", "date", "float"]) for _ in range(nk)]
        pals = [rnd.randint(0, 2) for _ in range(nk)]
        if rnd.random() < 0.25:
            # Vector.sort_by
            tag, pal = tags[0], pals[0]
            col = [conc(tag, k[0], pal) for k in K]
            v = Vector(col, name="x")
            st, r, err = outcome_of(lambda: v.sort_by(reverse=rev[0], na_last=na_last))
            inv = {repr(conc(tag, x, pal)): x for x in kdom if x != -1}
            out = [(-1 if x is None else inv.get(repr(x), -99)) for x in r] if st == "ok" else [-98]
            evs.append({"id": eid, "op": "vsort", "K": [[k[0]] for k in K], "rev": [rev[0]], "naLast": na_last,
                        "out": out, "err": err, "name_kept": (st == "ok" and r.name == "x"), "tag": tag})
            if st == "ok":
                mon.see(r, "Vector.sort_by result")
            continue
        npay = rnd.randint(0, 2)
        rows = [list(k) + [i] + [rnd.choice([-1, 0, 1, 2]) for _ in range(npay)] for i, k in enumerate(K)]
        width = nk + 1 + npay
        perm_cols = list(range(width))
        rnd.shuffle(perm_cols)
        alltags = tags + ["int"] + ["str"] * npay
        allpals = pals + [0] * (1 + npay)
        S = Side([[r[i] for i in perm_cols] for r in rows], width, [alltags[i] for i in perm_cols],
                 [allpals[i] for i in perm_cols], ["C%d" % i for i in perm_cols])
        kidx = [perm_cols.index(i) for i in range(nk)]
        pidx = perm_cols.index(nk)
        variant = rnd.randint(0, 11)
        before = table_view(S.table)
        st, res, err = outcome_of(lambda: sort_table(S, kidx, rev, na_last, variant))
        unchanged = views_equal(before, table_view(S.table))
        ev = {"id": eid, "op": "tsort", "K": K, "rev": rev, "naLast": na_last, "perm": [-98], "err": err,
              "unchanged": unchanged, "names_ok": True, "key_tags": tags}
        if st == "ok":
            got = table_rows(res)
            ev["perm"] = [r[pidx] + 1 if isinstance(r[pidx], int) else -99 for r in got]
            # cells kept together: every output row equals the input row at its original position
            ev["cells_together"] = all(views_equal(r, S.concrete_row(r[pidx])) for r in got
                                       if isinstance(r[pidx], int) and 0 <= r[pidx] < nrows)
            ev["names_ok"] = res.column_names() == S.names
            mon.see(res, "sort_by result")
        evs.append(ev)
    with open(out_path, "w") as f:
        for e in evs:
            f.write(json.dumps(e, default=str) + "\n")
        f.write(json.dumps({"op": "_monitor", **mon.dump()}, default=str) + "\n")


# ----------------------------------------------------------------------------- group
FUNS = ["sum", "mean", "min", "max", "count", "stdev"]
SPEC_FUN = {"sum": "sum", "mean": "mean", "min": "min", "max": "max", "count": "count", "stdev": "var"}


def rat(x, square=False):
    """Python result -> exact rational [num, den] (den 0 = None); floats via small-denominator recovery."""
    if x is None:
        return [0, 0]
    if isinstance(x, bool):
        return [int(x), 1]
    if isinstance(x, int):
        return [x * x, 1] if square else [x, 1]
    if isinstance(x, float):
        y = x * x if square else x
        fr = Fraction(y).limit_denominator(200000)
        if abs(float(fr) - y) > 1e-9 * max(1.0, abs(y)):
            return [-777777, 1]
        return [fr.numerator, fr.denominator]
    return [-888888, 1]


def rat_close(x, r, square=False):
    """Is python value x equal to the spec rational r = [num, den]?"""
    if r[1] == 0:
        return x is None
    if x is None or isinstance(x, bool):
        return False
    y = x * x if square else x
    want = r[0] / r[1]
    if isinstance(x, int) and r[1] == 1 and not square:
        return x == r[0]
    return abs(y - want) <= 1e-9 * max(1.0, abs(want))


def group_call(side, kidx, vcol_idx, funs, variant, method, calls, second=None):
    """second: (column index, mode) - aggregate a second column in the same call;
    mode 'stored' (by name / object), 'external' (a vector not stored in the table, same name as the first)"""
    over, _ = key_args(side, kidx, variant % 3)
    if variant % 2 and not isinstance(over, list) and kidx:
        over = [over]
    vname = side.names[vcol_idx]
    v = vname if variant % 3 == 0 else side.table.cols()[vcol_idx]
    if variant % 3 == 2:
        v = Vector(list(side.cols[vcol_idx]), name=vname)      # a vector not stored in the table
    if second is not None:
        sidx, mode = second
        if mode == "external":
            w = Vector(list(side.cols[sidx]), name=vname)       # same NAME as the first column, different values
        else:
            w = side.table.cols()[sidx]
        if isinstance(v, str):
            v = side.table.cols()[vcol_idx]
        kw = {f + "_over": [v, w] for f in funs}
    else:
        kw = {f + "_over": (v if variant % 2 == 0 else [v]) for f in funs}

    def rec(vals):
        calls.append(list(vals))
        return len(calls)
    # "keep" hands its argument back (a collecting aggregator): every group owns the list it was given
    kw["apply"] = {"calls": (v, rec), "keep": (v, lambda vals: vals)}
    return getattr(side.table, method)(over, **kw)


def col_by_name(t, name):
    names = t.column_names()
    return list(t.cols()[names.index(name)]) if name in names else None


def replay_group(cases_path, out_path):
    cases = json.load(open(cases_path))
    F, mon, executed = Fails(), Monitor(), 0
    subsets = [FUNS] + [list(s) for k in (1, 2) for s in itertools.combinations(FUNS, k)]
    for n, c in enumerate(cases):
        n = c.get("_n", n)
        K, V = c["K"], c["V"]
        nk = len(K[0]) if K else 1
        tag = (KEY_TAGS + ["intc"])[n % 5]
        pal = (n // 5) % 3
        variant = (n // 15) % 6
        funs = subsets[(n // 5) % len(subsets)]
        rows = [list(k) + [V[i], i] for i, k in enumerate(K)]
        names = ["g%d" % (i + 1) for i in range(nk)] + ["v", "pos"]
        S = Side(rows, nk + 2, [tag] * nk + ["int", "int"], [pal] * nk + [0, 0], names)
        if tag == "int" and pal == 0 and variant != 0:
            # equal but distinguishable key cells (1 / 1.0): one group, and window reproduces every cell as it was stored
            seen_first = set()
            for i in range(len(K)):
                if tuple(K[i]) in seen_first and i % 2:           # a LATER row of a group: the group's first row keeps the canonical cells
                    for cc in range(nk):
                        if S.cols[cc][i] is not None:
                            S.cols[cc][i] = float(S.cols[cc][i])
                seen_first.add(tuple(K[i]))
            S.table = Table([Vector(list(S.cols[cc]), name=names[cc]) for cc in range(nk + 2)]) if K else S.table
        info = {"tag": tag, "palette": pal, "variant": variant, "funs": funs}
        before = table_view(S.table)
        expkeys = [[conc(tag, x, pal) for x in k] for k in c["keys"]]
        # ---------------- aggregate
        calls = []
        st, res, err = outcome_of(lambda: group_call(S, list(range(nk)), nk, funs, variant, "aggregate", calls))
        executed += 1
        if st != "ok":
            F.add("agg_value", c, "aggregate raised " + err, "a table", info)
        else:
            ng = len(c["keys"])
            if len(res) != ng:
                F.add("group_keys", c, len(res), ng, info)
            elif ng:
                gotkeys = [[col_by_name(res, names[k])[g] for k in range(nk)] for g in range(ng)] \
                    if all(col_by_name(res, names[k]) is not None for k in range(nk)) else None
                if gotkeys is None:
                    F.add("names", c, res.column_names(), names[:nk], info)
                    gotkeys = [r[:nk] for r in table_rows(res)]
                if not views_equal(gotkeys, expkeys):
                    F.add("group_keys", c, gotkeys, expkeys, info)
                else:
                    for f in funs:
                        col = col_by_name(res, "v_" + f)
                        if col is None:
                            F.add("names", c, res.column_names(), "v_" + f, info)
                            continue
                        exp = c[SPEC_FUN[f]]
                        if not all(rat_close(col[g], exp[g], f == "stdev") for g in range(ng)):
                            F.add("agg_value", c, {f: col}, {f: exp}, info)
                expcalls = [[None if x == -1 else x for x in g] for g in c["calls"]]
                if calls != expcalls:
                    F.add("apply_calls", c, calls, expcalls, info)
                kept = col_by_name(res, "keep")
                if kept is not None and [list(x) if x is not None else None for x in kept] != expcalls:
                    F.add("apply_calls", c, {"values handed back by the function, per group": kept}, expcalls, info)
                if list(res.column_names()[:nk]) != names[:nk]:
                    F.add("keys_first", c, res.column_names(), names[:nk], info)
                mon.see(res, "aggregate result", rule=True)
        # ---------------- two aggregated columns in ONE call: stored under another name, stored under the SAME
        # name (duplicate column names), or an external vector carrying the same name
        if K and "V2" in c:
            mode = ["other_name", "same_name", "external"][n % 3]
            names2 = names[:nk] + ["v", "w" if mode == "other_name" else "v"]
            rows2 = [list(k) + [V[i], c["V2"][i]] for i, k in enumerate(K)]
            S2 = Side(rows2, nk + 2, [tag] * nk + ["int", "int"], [pal] * nk + [0, 0], names2)
            f2 = funs[:2]
            for method in ("aggregate", "window"):
                calls2 = []
                st, res, err = outcome_of(lambda: group_call(S2, list(range(nk)), nk, f2, 1, method, calls2,
                                                             second=(nk + 1, "external" if mode == "external" else "stored")))
                executed += 1
                info2 = {**info, "second_column": mode, "method": method, "funs": f2}
                if st != "ok":
                    F.add("agg_value", c, method + " raised " + err, "a table", info2)
                    continue
                # outputs follow the key columns in call order: for each function, first column then second
                outcols = [list(x) for x in res.cols()][nk:]
                k = 0
                order = [f for f in FUNS if f in f2]
                for f in order:
                    for which, suffix in ((0, ""), (1, "2")):
                        if k >= len(outcols):
                            F.add("agg_value", c, "missing output column", f + suffix, info2)
                            break
                        exp = c[SPEC_FUN[f] + suffix]
                        if method == "window":
                            exp = [exp[g - 1] for g in c["gidx"]]
                        col = outcols[k]
                        k += 1
                        if len(col) != len(exp) or not all(rat_close(col[i], exp[i], f == "stdev") for i in range(len(exp))):
                            F.add("agg_value" if method == "aggregate" else "window_value", c,
                                  {f + suffix: col}, {f + suffix: exp}, info2)
        # ---------------- window
        calls = []
        st, res, err = outcome_of(lambda: group_call(S, list(range(nk)), nk, funs, variant, "window", calls))
        executed += 1
        if st != "ok":
            F.add("window_value", c, "window raised " + err, "a table", info)
        elif len(res) != len(K):
            F.add("window_rows", c, len(res), len(K), info)
        elif K:
            for k in range(nk):
                col = col_by_name(res, names[k])
                if col is None or not views_equal(col, S.cols[k]):
                    F.add("window_keys", c, col, S.cols[k], info)
            # custom functions see the same groups (None cells included, row order) as in aggregate, and every row
            # of a group receives that group's value
            expcalls = [[None if x == -1 else x for x in g] for g in c["calls"]]
            kept = col_by_name(res, "keep")
            if kept is not None and len(kept) == len(K) and [list(x) if x is not None else None for x in kept] != [expcalls[g - 1] for g in c["gidx"]]:
                F.add("window_value", c, {"values handed back by the function, per row": kept}, [expcalls[g - 1] for g in c["gidx"]], info)
            if sorted(map(repr, calls)) != sorted(map(repr, expcalls)):
                F.add("window_value", c, {"apply called with": calls}, {"apply called with": expcalls}, info)
            else:
                col = col_by_name(res, "calls")
                if col is not None and len(col) == len(K):
                    byg = {}
                    for i, g in enumerate(c["gidx"]):
                        byg.setdefault(g, set()).add(col[i])
                    if any(len(vs) != 1 for vs in byg.values()) or len({next(iter(vs)) for vs in byg.values()}) != len(byg):
                        F.add("window_value", c, {"apply column": col}, "one value per group, the same on all rows of the group", info)
            for f in funs:
                col = col_by_name(res, "v_" + f)
                if col is None:
                    F.add("names", c, res.column_names(), "v_" + f, info)
                    continue
                exp = [c[SPEC_FUN[f]][g - 1] for g in c["gidx"]]
                if not all(rat_close(col[i], exp[i], f == "stdev") for i in range(len(K))):
                    F.add("window_value", c, {f: col}, {f: exp}, info)
            mon.see(res, "window result", rule=True)
        if not views_equal(before, table_view(S.table)):
            F.add("operands_unchanged", c, "aggregate/window changed the table", "unchanged", info)
        # ---------------- whole-column reductions = aggregating the column as a single group
        if len(c["keys"]) == 1 and any(x != -1 for x in V):
            vec = Vector(list(S.cols[nk]))
            for f in FUNS:
                if f == "count":
                    continue
                st, r, err = outcome_of(lambda: getattr(vec, f)())
                executed += 1
                exp = c[SPEC_FUN[f]][0]
                if st != "ok":
                    F.add("reduce_value", c, f"Vector.{f}() raised {err}", exp, {**info, "fun": f})
                elif not rat_close(r, exp, f == "stdev"):
                    F.add("reduce_value", c, {f: r}, exp, {**info, "fun": f})
    # the "textbook function" on values that are not small integers: a large common offset with a small spread, tiny and huge
    # magnitudes, negative values (exact rational arithmetic as the reference; 1e-6 relative tolerance)
    import math
    from fractions import Fraction
    for vals in ([1e9 + 1, 1e9 + 2, 1e9 + 3], [1e8 + 0.5, 1e8 + 1.5, 1e8 + 2.5, 1e8 + 3.5], [1e-9, 2e-9, 4e-9], [-5.5, 5.5, -5.5, 5.5],
                 [10 ** 12 + 1, 10 ** 12 + 2, 10 ** 12 + 4], [0.1, 0.2, 0.3, 0.4], [123456789.125, 123456789.375]):
        fr = [Fraction(x) for x in vals]
        m = sum(fr) / len(fr)
        var = sum((x - m) ** 2 for x in fr) / (len(fr) - 1)
        ref = {"mean": float(m), "stdev": math.sqrt(var), "sum": float(sum(fr)), "min": min(vals), "max": max(vals)}
        t = Table({"k": ["g"] * len(vals), "v": list(vals)})
        for f, want in ref.items():
            got = {"Vector": outcome_of(lambda: getattr(Vector(list(vals)), f)()),
                   "aggregate": outcome_of(lambda: list(t.aggregate("k", **{f + "_over": "v"}).cols()[1])[0]),
                   "window": outcome_of(lambda: list(t.window("k", **{f + "_over": "v"}).cols()[1])[-1])}
            for how, (st, r, err) in got.items():
                executed += 1
                clause = {"Vector": "reduce_value", "aggregate": "agg_value", "window": "window_value"}[how]
                if st != "ok" or r is None or abs(r - want) > 1e-6 * max(abs(want), 1e-300):
                    F.add(clause, {"values": repr(vals), "function": f, "through": how}, r if st == "ok" else err, want, {})
    # NaN is a value, not a missing cell: min / max are Python's own min / max over the non-None cells in row order, through
    # every entry point alike
    nan = float("nan")

    def same(a, b):
        return (a != a and b != b) or a == b
    for vals in ([None, nan, 1.0, 4.0], [1.0, nan, 4.0], [4.0, 1.0, nan, None], [nan, nan], [2.0, None, nan, 1.0]):
        present = [x for x in vals if x is not None]
        t = Table({"k": ["g"] * len(vals), "v": list(vals)})
        for f, want in (("min", min(present)), ("max", max(present))):
            got = {"Vector": outcome_of(lambda: getattr(Vector(list(vals)), f)()),
                   "aggregate": outcome_of(lambda: list(t.aggregate("k", **{f + "_over": "v"}).cols()[1])[0]),
                   "window": outcome_of(lambda: list(t.window("k", **{f + "_over": "v"}).cols()[1])[0])}
            for how, (st, r, err) in got.items():
                executed += 1
                if st != "ok" or r is None or not same(r, want):
                    F.add({"Vector": "reduce_value", "aggregate": "agg_value", "window": "window_value"}[how],
                          {"values": repr(vals), "function": f, "through": how}, repr(r) if st == "ok" else err, repr(want), {})
    # the reductions' own parameters: stdev(population=True) is the population formula over the NON-None values (None is
    # skipped, not counted), by keyword and by position
    import statistics
    for vals in ([1, None, 3], [2, 4, None, None, 9], [1.5, 2.5, 3.5], [None, 7, None, 9, 11, None]):
        present = [x for x in vals if x is not None]
        for label, call in (("stdev(population=True)", lambda v: v.stdev(population=True)), ("stdev(True)", lambda v: v.stdev(True)),
                            ("stdev(population=False)", lambda v: v.stdev(population=False)), ("stdev()", lambda v: v.stdev())):
            want = statistics.pstdev(present) if "True" in label else statistics.stdev(present)
            st, r, err = outcome_of(lambda: call(Vector(list(vals))))
            executed += 1
            if st != "ok" or r is None or abs(r - want) > 1e-9 * max(1.0, abs(want)):
                F.add("reduce_value", {"values": repr(vals), "call": label}, r if st == "ok" else err, want, {})
            st, r, err = outcome_of(lambda: call(Vector(list(present))))
            if st != "ok" or r is None or abs(r - want) > 1e-9 * max(1.0, abs(want)):
                F.add("reduce_value", {"values": repr(present), "call": label + " after dropna"}, r if st == "ok" else err, want, {})
    json.dump({"executed": executed, "failures": F.items, "per_clause": F.per, "skipped": {}, **mon.dump()},
              open(out_path, "w"), default=str)


def record_group(seed, n, maxrows, out_path):
    rnd = random.Random(seed)
    evs, mon = [], Monitor()
    eid = 0
    for _ in range(n):
        nk = rnd.choice([1, 1, 2, 3])
        kdom = rnd.choice([[-1, 0, 1], [0, 1, 2, 3], [-1, 5], [0, 1, 2, 3, 4, 5, 6]])
        vdom = rnd.choice([[-1, 0, 1, 2], [-1, -1, 7], list(range(0, 40)), [-1] + list(range(0, 12))])
        nrows = rnd.randint(0, rnd.choice([3, 8, maxrows]))
        K = [[rnd.choice(kdom) for _ in range(nk)] for _ in range(nrows)]
        V = [rnd.choice(vdom) for _ in range(nrows)]
        tags = [rnd.choice(KEY_TAGS) for _ in range(nk)]
        pals = [rnd.randint(0, 2) for _ in range(nk)]
        for cidx, t in enumerate(tags):
            if t == "bool":
                for k in K:
                    if k[cidx] != -1:
                        k[cidx] %= 2
        rows = [list(k) + [V[i]] for i, k in enumerate(K)]
        names = ["G %d" % i for i in range(nk)] + ["Val"]
        S = Side(rows, nk + 1, tags + ["int"], pals + [0], names)
        funs = rnd.sample(FUNS, rnd.randint(1, 6))
        variant = rnd.randint(0, 5)
        method = rnd.choice(["aggregate", "window"])
        calls = []
        before = table_view(S.table)
        st, res, err = outcome_of(lambda: group_call(S, list(range(nk)), nk, funs, variant, method, calls))
        eid += 1
        ev = {"id": eid, "op": method, "K": K, "V": V, "funs": [SPEC_FUN[f] for f in funs], "err": err,
              "unchanged": views_equal(before, table_view(S.table)), "names": None, "out": [], "keys": [[-98]],
              "wkeys": [[-98]], "calls": [[-98]], "pyfuns": funs, "nocalls": False}
        if st == "ok":
            ev["names"] = res.column_names()
            nres = len(res)
            keycols = [list(res.cols()[k]) for k in range(nk)] if len(res.cols()) >= nk else []
            keys = [[S.abstract_cell(k, keycols[k][g]) for k in range(nk)] for g in range(nres)] if keycols else [[-97]]
            ev["keys" if method == "aggregate" else "wkeys"] = keys
            out = []
            for f in funs:
                col = col_by_name(res, "val_" + f)
                out.append([rat(x, f == "stdev") for x in col] if col is not None else [[-96, 1]])
            ev["out"] = out
            ev["calls"] = [[-1 if x is None else x for x in g] for g in calls]
            mon.see(res, method + " result", rule=True)
        else:
            ev["out"] = [[[-95, 1]] for _ in funs]
        evs.append(ev)
        # whole-column reductions on the same column
        if any(x != -1 for x in V):
            vec = Vector(list(S.cols[nk]))
            fs, outs = [], []
            for f in ["sum", "mean", "min", "max", "stdev"]:
                st, r, err = outcome_of(lambda: getattr(vec, f)())
                fs.append(SPEC_FUN[f])
                outs.append(rat(r, f == "stdev") if st == "ok" else [-94, 1])
            eid += 1
            evs.append({"id": eid, "op": "reduce", "V": V, "funs": fs, "out": outs, "nocalls": False})
    with open(out_path, "w") as f:
        for e in evs:
            f.write(json.dumps(e, default=str) + "\n")
        f.write(json.dumps({"op": "_monitor", **mon.dump()}, default=str) + "\n")


def main(argv):
    cmd = argv[1]
    if cmd == "replay_sort":
        replay_sort(argv[2], argv[3])
    elif cmd == "record_sort":
        record_sort(int(argv[2]), int(argv[3]), int(argv[4]), argv[5])
    elif cmd == "replay_group":
        replay_group(argv[2], argv[3])
    elif cmd == "record_group":
        record_group(int(argv[2]), int(argv[3]), int(argv[4]), argv[5])
    else:
        raise SystemExit("unknown command " + cmd)
