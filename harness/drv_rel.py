"""Driver for the relational suites (join / sort / group); runs against <repo>/src.

  replay_join  <cases.json> <out.json>
  record_join  <seed> <n> <maxrows> <out.ndjson>
  replay_sort / record_sort / replay_group / record_group   likewise
"""
import json
import random
import sys
import warnings
from fractions import Fraction

warnings.simplefilter("ignore")
from serif import Vector, Table                                  # noqa: E402
from serif.errors import SerifValueError, SerifTypeError         # noqa: E402
import absval as A                                               # noqa: E402
from tabutil import table_rows, table_view, vec_view, views_equal, Monitor   # noqa: E402

KEY_TAGS = ["int", "str", "bool", "date"]
JOIN_METHOD = {"inner": "inner_join", "left": "join", "full": "full_join"}
MAXFAIL = 40


def conc(tag, v, pal):
    if v == -1:
        return None
    if tag == "finf":
        # float keys at the ends of the number line: -inf < ... < inf are ordinary values, distinct from None
        return {1: float("-inf"), 2: float("inf")}.get(v, float(v))
    if tag in ("xl", "xr"):
        # object-dtype key columns whose EQUAL keys have different Python types on the two sides (1 / True, 12 / 12.0):
        # joins match by ==, like dict lookup, in every join kind
        if v % 2:
            return "s%d" % v
        if v == 0:
            return 1 if tag == "xl" else True
        return (10 + v) if tag == "xl" else float(10 + v)
    return A.concrete(tag, v, pal)


class Side:
    """One concrete table built from abstract rows; remembers how to abstract cells back."""

    def __init__(self, rows, width, tags, pals, names):
        self.abs_rows, self.width, self.tags, self.pals, self.names = rows, width, tags, pals, names
        self.cols = [[conc(tags[c], r[c], pals[c]) for r in rows] for c in range(width)]
        self.inv = []
        for c in range(width):
            m = {}
            for r in rows:
                if r[c] != -1:
                    m[repr(conc(tags[c], r[c], pals[c]))] = r[c]
            self.inv.append(m)
        self.table = Table([Vector(self.cols[c], name=names[c]) for c in range(width)]) if width else Table()

    def abstract_cell(self, c, x):
        if x is None:
            return -1
        return self.inv[c].get(repr(x), -99)

    def concrete_row(self, i):
        return [self.cols[c][i] for c in range(self.width)]


def outcome_of(fn):
    try:
        return ("ok", fn(), None)
    except Exception as ex:     # noqa: BLE001 - the class is part of the observation
        return ("err", None, type(ex).__name__)


def kinds_mismatch(lcols, rcols):
    for l, r in zip(lcols, rcols):
        ls, rs = l.schema(), r.schema()
        if ls is not None and rs is not None and ls.kind is not rs.kind:
            return True
        for s in (ls, rs):
            if s is not None and s.kind is float:
                return True
    return False


def key_args(side, kidx, variant):
    """left_on / right_on in three forms: names, the table's own columns, vectors not stored in the table."""
    cols = [side.table.cols()[c] for c in kidx]
    if not kidx:
        return ([] if variant != 1 else ()), cols          # no partition column at all: one group / the grand total
    if variant == 0:
        names = [side.names[c] for c in kidx]
        return (names[0] if len(names) == 1 else names), cols
    if variant == 1:
        return (cols[0] if len(cols) == 1 else list(cols)), cols
    # external vectors under their column's name, without any name, or ALL under one and the same name (derived key vectors
    # such as t.period // 100 and t.period % 100 both carry the name 'period'): each is a key component of its own
    ext = [Vector(list(side.cols[c]), name=(side.names[c] if variant == 2 else None if variant == 3 else "k")) for c in kidx]
    return (ext[0] if len(ext) == 1 else ext), ext


# ----------------------------------------------------------------------------- joins
def run_join(L, R, lk_idx, rk_idx, kind, expect, variant):
    lon, lcols = key_args(L, lk_idx, variant)
    ron, rcols = key_args(R, rk_idx, variant)
    before = (table_view(L.table), table_view(R.table))
    default = {"inner": "many_to_one", "left": "many_to_one", "full": "many_to_many"}[kind]
    if expect == default and variant % 2 == 0:
        # the documented default of each join, left unsaid (and the keys handed over positionally)
        st, res, err = outcome_of(lambda: getattr(L.table, JOIN_METHOD[kind])(R.table, lon, ron))
    else:
        st, res, err = outcome_of(lambda: getattr(L.table, JOIN_METHOD[kind])(R.table, left_on=lon, right_on=ron, expect=expect))
    after = (table_view(L.table), table_view(R.table))
    pre = st == "err" and err == "SerifTypeError" and kinds_mismatch(lcols, rcols)
    return st, res, err, views_equal(before, after), pre


BOGUS = ["bogus", "", None, 0, False, (), "MANY_TO_ONE", " many_to_one", "many-to-one", 1, "one_to_one ", ["many_to_one"], b"many_to_one", "one_to_many_", True,
         "one_to_one\n", "many_to_many\n", "\nmany_to_one", "many_to_one\r\n", "one_to_many\t", "many_to_one\x00", "one_to_one;", "ONE_TO_ONE"]


def replay_join(cases_path, out_path):
    cases = json.load(open(cases_path))
    mon = Monitor()
    fails, executed, skipped = [], 0, {}
    per_clause = {}

    def fail(clause, case, observed, expected, extra=None):
        per_clause[clause] = per_clause.get(clause, 0) + 1
        if per_clause[clause] <= MAXFAIL:
            fails.append({"clause": clause, "case": case, "observed": observed, "expected": expected, **(extra or {})})

    for n, c in enumerate(cases):
        n = c.get("_n", n)
        nk = len(c["lk"][0]) if c["lk"] else (len(c["rk"][0]) if c["rk"] else 1)
        tag = (KEY_TAGS + ["intc", "x"])[n % 6]     # "intc": distinct ints with colliding hashes; "x": cross-type equal keys
        pal = (n // 5) % 3
        variant = (n // 15) % 5
        same_names = (n // 45) % 2 == 0
        lrows = [list(k) + [100 + i, (-1 if i % 2 else 7)] for i, k in enumerate(c["lk"])]
        rrows = [list(k) + [200 + j] for j, k in enumerate(c["rk"])]
        # payload columns also under names that are not strings (an int year, a float, a tuple), unnamed and repeated:
        # "under their original names" means the very objects
        lpay, rpay = [["lid", "l pay"], [2023, 2.5], [None, None], ["lid", "lid"], [("t", 1), True]][(n // 7) % 5], ["rid", 2023, None, "lid", 0][(n // 7) % 5]
        lnames = ["k%d" % (i + 1) for i in range(nk)] + lpay
        rnames = [("k%d" if same_names else "r%d") % (i + 1) for i in range(nk)] + [rpay]
        L = Side(lrows, nk + 2, [tag if tag != "x" else "xl"] * nk + ["int", "str"], [pal] * nk + [0, 0], lnames)
        R = Side(rrows, nk + 1, [tag if tag != "x" else "xr"] * nk + ["int"], [pal] * nk + [0], rnames)
        if (n // 11) % 4 == 0:
            # a right table that consists of its key columns only: a matched right row may then be None in EVERY column
            rrows = [list(k) for k in c["rk"]]
            rnames = rnames[:nk]
            R = Side(rrows, nk, [tag if tag != "x" else "xr"] * nk, [pal] * nk, rnames)
        expect = c["expect"]
        if expect == "bogus":
            # "any other expect value is always rejected": every spelling that is not one of the four words
            expect = BOGUS[(n // 3) % len(BOGUS)]
        st, res, err, unchanged, pre = run_join(L, R, list(range(nk)), list(range(nk)), c["kind"], expect, variant)
        executed += 1
        info = {"tag": tag, "palette": pal, "key_form": ["names", "own columns", "external vectors", "unnamed external vectors", "external vectors all named 'k'"][variant], "expect_value": repr(expect)}
        if pre:
            skipped["precondition: key dtype kinds differ"] = skipped.get("precondition: key dtype kinds differ", 0) + 1
            continue
        if not unchanged:
            fail("operands_unchanged", c, "an input table changed", "inputs unchanged", info)
        if not c["ok"]:
            if st != "err":
                fail("cardinality", c, "returned a table", "SerifValueError", info)
            elif err != "SerifValueError":
                fail("cardinality", c, err, "SerifValueError", info)
            continue
        if st != "ok":
            fail("cardinality" if err == "SerifValueError" else "rows_" + c["kind"], c, "raised " + str(err), "a table", info)
            if err == "SerifValueError":
                # a refusal although the expectation holds is also a result without any of the rows it must contain
                fail("rows_" + c["kind"], c, "raised " + str(err) + " (no rows at all)", "the rows of the join", info)
            continue
        exp_rows = [(L.concrete_row(p[0] - 1) if p[0] else [None] * L.width) +
                    (R.concrete_row(p[1] - 1) if p[1] else [None] * R.width) for p in c["pairs"]]
        try:
            got_rows = table_rows(res)
            nrows = len(res)
        except Exception as ex:    # noqa: BLE001
            fail("rows_" + c["kind"], c, "result unreadable: " + repr(ex), exp_rows, info)
            continue
        if not exp_rows:
            if nrows != 0 or got_rows:
                fail("rows_" + c["kind"], c, got_rows, [], info)
            continue
        if not views_equal(got_rows, exp_rows):
            fail("rows_" + c["kind"], c, got_rows, exp_rows, info)
        if res.column_names() != lnames + rnames:
            fail("names", c, res.column_names(), lnames + rnames, info)
        if nrows != len(exp_rows) or any(len(col) != nrows for col in res.cols()):
            fail("rectangular", c, [len(col) for col in res.cols()], len(exp_rows), info)
        mon.see(res, "join result", rule=True)
    json.dump({"executed": executed, "failures": fails, "per_clause": per_clause, "skipped": skipped, **mon.dump()},
              open(out_path, "w"), default=str)


def rand_rows(rnd, n, kdom, nk, npay):
    return [[rnd.choice(kdom) for _ in range(nk)] + [rnd.choice([-1, 0, 1, 2, 3, 50 + i]) for _ in range(npay)]
            for i in range(n)]


def record_join(seed, n, maxrows, out_path):
    rnd = random.Random(seed)
    evs = []
    mon = Monitor()
    for eid in range(1, n + 1):
        nk = rnd.choice([1, 1, 2, 3])
        kdom = rnd.choice([[-1, 0, 1], [0, 1, 2, 3], [-1, 0, 1, 2, 3, 4, 5], [1]])
        lp, rp = rnd.randint(0, 3), rnd.randint(0, 3)
        ln, rn = rnd.choice([0, 1, 2, maxrows // 2, maxrows]), rnd.choice([0, 1, 3, maxrows // 2, maxrows])
        ln, rn = rnd.randint(0, ln), rnd.randint(0, rn)
        if eid % 8 == 0:
            # a longer right table, mostly unmatched, more distinct keys than a small hash set holds in insertion order
            ln, rn = rnd.randint(0, 5), rnd.randint(9, 26)
            kdom = list(range(0, 31)) + [-1]
            if eid % 16 == 0:
                # ... or mostly MATCHED with a few unmatched rows scattered at high positions
                ln = rnd.randint(4, 7)
                kdom = [0, 1, 2, 3] * 4 + [20, 21]
        lrows, rrows = rand_rows(rnd, ln, kdom, nk, lp), rand_rows(rnd, rn, kdom, nk, rp)
        tags = [rnd.choice(KEY_TAGS) for _ in range(nk)]
        pals = [rnd.randint(0, 2) for _ in range(nk)]
        for c, t in enumerate(tags):        # bool has two values only: keep the abstraction injective
            if t == "bool":
                for r in lrows + rrows:
                    if r[c] != -1:
                        r[c] = r[c] % 2
        ptag = lambda: rnd.choice(["int", "str", "float", "date"])     # noqa: E731
        ltags, rtags = tags + [ptag() for _ in range(lp)], tags + [ptag() for _ in range(rp)]
        # keys are not necessarily the leading columns of the concrete table: permute columns
        lperm, rperm = list(range(nk + lp)), list(range(nk + rp))
        rnd.shuffle(lperm)
        rnd.shuffle(rperm)
        L = Side([[r[i] for i in lperm] for r in lrows], nk + lp, [ltags[i] for i in lperm],
                 [(pals + [0] * lp)[i] for i in lperm], ["L%d" % i for i in lperm])
        R = Side([[r[i] for i in rperm] for r in rrows], nk + rp, [rtags[i] for i in rperm],
                 [(pals + [0] * rp)[i] for i in rperm], [("L%d" if rnd.random() < .5 else "R%d") % i for i in rperm])
        lk_idx = [lperm.index(i) for i in range(nk)]
        rk_idx = [rperm.index(i) for i in range(nk)]
        kind = rnd.choice(["inner", "left", "full"])
        expect = rnd.choice(["one_to_one", "many_to_one", "one_to_many", "many_to_many", "many_to_many", "whatever"])
        variant = rnd.randint(0, 2)
        st, res, err, unchanged, pre = run_join(L, R, lk_idx, rk_idx, kind, expect, variant)
        ev = {"id": eid, "op": "join", "kind": kind, "expect": expect,
              "lk": [[r[i] for i in lk_idx] for r in L.abs_rows], "rk": [[r[i] for i in rk_idx] for r in R.abs_rows],
              "lrows": L.abs_rows, "rrows": R.abs_rows, "lw": L.width, "rw": R.width,
              "res": st, "errclass": err or "", "rows": [], "unchanged": unchanged,
              "lnames": L.names, "rnames": R.names, "key_form": variant, "key_tags": tags}
        if pre:
            ev["skipped"] = "precondition: key dtype kinds differ"
        elif st == "ok":
            try:
                got = table_rows(res)
                ev["rows"] = [[(L.abstract_cell(c, x) if c < L.width else R.abstract_cell(c - L.width, x))
                               for c, x in enumerate(row)] for row in got]
                ev["names"] = res.column_names()
                ev["collens"] = [len(col) for col in res.cols()]
                ev["len"] = len(res)
                mon.see(res, "join result", rule=True)
            except Exception as ex:     # noqa: BLE001
                ev["rows"] = [[-98]]
                ev["unreadable"] = repr(ex)
        evs.append(ev)
    with open(out_path, "w") as f:
        for e in evs:
            f.write(json.dumps(e, default=str) + "\n")
        f.write(json.dumps({"op": "_monitor", **mon.dump()}, default=str) + "\n")


if __name__ == "__main__":
    cmd = sys.argv[1]
    if cmd == "replay_join":
        replay_join(sys.argv[2], sys.argv[3])
    elif cmd == "record_join":
        record_join(int(sys.argv[2]), int(sys.argv[3]), int(sys.argv[4]), sys.argv[5])
    else:
        import drv_rel2
        drv_rel2.main(sys.argv)
