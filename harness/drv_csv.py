"""Driver for the CSV suite (C19).   replay <cases.json> <out.json> | record <seed> <n> <out.ndjson>"""
import csv
import io
import json
import os
import random
import sys
import tempfile
import warnings

warnings.simplefilter("ignore")
from serif import read_csv, Table, Vector                 # noqa: E402
import absval as A                                        # noqa: E402
from tabutil import table_rows, views_equal, Monitor      # noqa: E402
from drv_vec import Fails, attempt                        # noqa: E402

TEXTS = {
    "blank": [""], "spaces": [" ", "   ", "\t"], "int": ["12", "-7", "0", "+3", "007", "9007199254740993", "-9007199254740993", "12345678901234567890", "18446744073709551617"], "padint": [" 12 ", "  -4", "5  "],
    "float": ["1.5", "-0.25", "1e3", ".5", "3."], "text": ["abc", "N/A", "été", "x y", "a\x0bb", "c\u2028d", "p\x85q", "f\x0cg", "s\x1ct", "u\u2029v", "r\x1ds"], "quoted": ["a,b", 'say "hi"', "two\nlines", "semi;colon", "tab\there", "pipe|x", "win\r\nlines", "mac\rline", "x\r\n"],
    "numlike": ["1_000", "0x10", "nan", "inf", "1e", "--1", "1,5", "١٢", "Infinity", "1e400"],
}


def expected_value(text):
    """the statement's rule, evaluated by Python: None if blank, int(), float(), else stripped text"""
    if text.strip() == "":
        return None
    s = text.strip()
    try:
        return int(s)
    except ValueError:
        pass
    try:
        return float(s)
    except ValueError:
        pass
    return s


def render(records, delimiter, quoting, lineterm):
    buf = io.StringIO()
    w = csv.writer(buf, delimiter=delimiter, quoting=quoting, lineterminator=lineterm)
    for r in records:
        w.writerow(r)
    return buf.getvalue()


def check(F, mon, c, texts, header_flag, delimiter, quoting, lineterm, via, info):
    text = render(texts, delimiter, quoting, lineterm)
    # what the csv module itself delivers for this text (the trusted lexer)
    lexed = list(csv.reader(io.StringIO(text, newline=""), delimiter=delimiter))
    if lexed != [list(r) for r in texts]:
        # e.g. a record with no cells is written as an empty line and read back as []
        if [r for r in lexed] != [list(r) for r in texts]:
            F.skip("csv module does not round-trip this grid (trusted lexer decides)")
            return 0
    path = None
    try:
        if via == "path":
            fd, path = tempfile.mkstemp(suffix=".csv")
            with os.fdopen(fd, "w", encoding="utf-8", newline="") as f:
                f.write(text)
            # every read is faithful to the FILE: an earlier read of the same path whose result the caller then changed
            # (a cell, a column name) leaves no trace
            st0, t0, e0 = attempt(lambda: read_csv(path, delimiter=delimiter, has_header=header_flag))
            if st0 == "ok" and isinstance(t0, Table) and len(t0.cols()):
                try:
                    t0.rename_column(t0.column_names()[0], "renamed by the caller")
                    if len(t0):
                        t0[0, 0] = "changed by the caller"
                except Exception:      # noqa: BLE001
                    pass
            st, t, e = attempt(lambda: read_csv(path, delimiter=delimiter, has_header=header_flag))
        elif via.startswith("open:") or via.startswith("path:"):
            # a real file in another encoding: opened by the caller (the file object decodes) or named with encoding=...
            enc = via.split(":")[1]
            fd, path = tempfile.mkstemp(suffix=".csv")
            try:
                with os.fdopen(fd, "w", encoding=enc, newline="") as f:
                    f.write(text)
            except UnicodeEncodeError:
                F.skip("text not encodable in " + enc)
                return 0
            if via.startswith("open:"):
                with open(path, "r", encoding=enc, newline="") as fh:
                    st, t, e = attempt(lambda: read_csv(fh, delimiter=delimiter, has_header=header_flag))
            else:
                st, t, e = attempt(lambda: read_csv(path, delimiter=delimiter, has_header=header_flag, encoding=enc))
        else:
            st, t, e = attempt(lambda: read_csv(io.StringIO(text, newline=""), delimiter=delimiter, has_header=header_flag))
    finally:
        if path:
            os.unlink(path)
    exp = c["exp"]
    if st != "ok":
        F.add("csv_error", c, type(e).__name__ + ": " + str(e)[:80], "a table", **info)
        return 1
    if not isinstance(t, Table):
        F.add("csv_error", c, type(t).__name__, "a table", **info)
        return 1
    if exp["nrows"] == 0:
        # header-only or empty input: an empty table rather than an error - with one column per header cell, named verbatim
        if len(t) != 0:
            F.add("csv_shape", c, len(t), 0, **info)
        elif header_flag and texts:
            if len(t.cols()) != len(texts[0]):
                F.add("csv_shape", c, [0, len(t.cols())], [0, len(texts[0])], **info)
            elif t.column_names() != list(texts[0]):
                F.add("csv_names", c, t.column_names(), list(texts[0]), **info)
        return 1
    data = texts[1:] if header_flag else texts
    names = list(texts[0]) if header_flag else ["col_%d" % i for i in range(exp["ncols"])]
    if len(t.cols()) != exp["ncols"] or len(t) != exp["nrows"]:
        F.add("csv_shape", c, [len(t), len(t.cols())], [exp["nrows"], exp["ncols"]], **info)
        return 1
    if t.column_names() != names:
        F.add("csv_names", c, t.column_names(), names, **info)
    exp_cols = []
    for ci in range(exp["ncols"]):
        col = []
        for r in range(exp["nrows"]):
            cls = exp["cells"][ci][r]
            if cls == "none":
                col.append(None)
            else:
                col.append(expected_value(data[r][ci]))
        exp_cols.append(col)
    got = [list(col) for col in t.cols()]
    if not views_equal(got, exp_cols):
        F.add("csv_cells", c, repr(got)[:200], repr(exp_cols)[:200], **info)
    mon.see(t, "read_csv column", rule=True)
    return 1


def replay(cases_path, out_path):
    cases = json.load(open(cases_path))
    F, mon, ex = Fails(), Monitor(), 0
    delims = [",", ";", "\t", "|"]
    for n, c in enumerate(cases):
        n = c.get("_n", n)
        pick = lambda cls, k: TEXTS[cls][(n + k) % len(TEXTS[cls])]      # noqa: E731
        recs = c["records"]
        delimiter = delims[n % 4]
        texts = []
        for ri, r in enumerate(recs):
            if c["header"] and ri == 0:
                hdr = ["h%d" % i for i in range(len(r))]
                if n % 5 == 0 and len(hdr) > 1:
                    hdr[1] = hdr[0]                      # repeated header cell, kept verbatim
                if n % 7 == 0:
                    hdr[-1] = "Mixed Case ($)"
                # header cells are names, kept verbatim whatever they look like: empty, blank, padded, numeric, odd characters
                odd = ["", " ", " pad ", "12", "1.5", "None", "col_0", "a\u2028b", "x\x0cy", "0"]
                if n % 3 == 1:
                    hdr[(n // 3) % len(hdr)] = odd[(n // 9) % len(odd)]
                texts.append(hdr)
            else:
                texts.append([pick(cls, ri * 3 + ci) for ci, cls in enumerate(r)])
        if n % 6 == 0 and texts and texts[0] and texts[0][0].strip() != "":
            texts[0][0] = "\ufeff" + texts[0][0]          # the file's very first character is U+FEFF: part of that cell, verbatim
        # a cell text must not contain the chosen delimiter unless it is a "quoted" class (csv quoting handles both)
        quoting = [csv.QUOTE_MINIMAL, csv.QUOTE_ALL][(n // 4) % 2]
        lineterm = ["\n", "\r\n"][(n // 8) % 2]
        via = ["path", "file", "path", "file", "open:latin-1", "open:utf-16", "path:latin-1", "open:utf-8-sig", "path:utf-16", "open:cp1252"][(n // 2) % 10]
        info = {"delimiter": delimiter, "quoting": quoting, "lineterminator": repr(lineterm), "via": via, "texts": texts}
        ex += check(F, mon, c, texts, c["header"], delimiter, quoting, lineterm, via, info)
    json.dump({"executed": ex, "failures": F.items, "per_clause": F.per, "skipped": F.skipped, **mon.dump()}, open(out_path, "w"), default=str)


def record(seed, n, out_path):
    """random unicode grids; the expectation is built with the same rule (shape from the spec's ReadGrid)"""
    rnd = random.Random(seed)
    F, mon, ex = Fails(), Monitor(), 0
    alphabet = "abc XYZ 0123456789 .,;-+eE_\"'\t|éß名😀 " + "\x0b\x0c\x1c\x85\u2028"
    for i in range(n):
        w = rnd.randint(1, 5)
        nrec = rnd.randint(0, 6)
        header = rnd.random() < 0.6
        recs = []
        for r in range(nrec + (1 if header else 0)):
            ln = w if (r == 0) else rnd.randint(0, w)
            row = []
            for _ in range(ln):
                k = rnd.random()
                if k < 0.15:
                    row.append("")
                elif k < 0.25:
                    row.append(" " * rnd.randint(1, 3))
                elif k < 0.5:
                    row.append(rnd.choice(["", " "]) + str(rnd.randint(-999, 999)) + rnd.choice(["", "  "]))
                elif k < 0.65:
                    row.append(repr(rnd.uniform(-5, 5)))
                else:
                    row.append("".join(rnd.choice(alphabet) for _ in range(rnd.randint(1, 8))))
            recs.append(row)
        if not recs:
            continue
        if not header and not recs[0]:
            continue
        width = len(recs[0])
        rows = recs[1:] if header else recs
        exp = {"ncols": width, "nrows": len(rows),
               "cells": [[("none" if (c >= len(rows[r]) or rows[r][c].strip() == "") else "x") for r in range(len(rows))] for c in range(width)]}
        c = {"records": "random", "exp": exp, "header": header}
        delimiter = rnd.choice([",", ";", "\t", "|"])
        info = {"delimiter": delimiter, "texts": recs, "via": "file"}
        ex += check(F, mon, c, recs, header, delimiter, csv.QUOTE_MINIMAL, rnd.choice(["\n", "\r\n"]), rnd.choice(["path", "file"]), info)
    json.dump({"executed": ex, "failures": F.items, "per_clause": F.per, "skipped": F.skipped, **mon.dump()}, open(out_path, "w"), default=str)


if __name__ == "__main__":
    if sys.argv[1] == "replay":
        replay(sys.argv[2], sys.argv[3])
    else:
        record(int(sys.argv[2]), int(sys.argv[3]), sys.argv[4])
