"""Property -> decision procedure.  Each function fills an engine.Report."""
import json

import engine
import suite_types


def c04(rep, tier, seed):
    rep.assumptions += [
        "tags abstract Python classes; concrete values come from 3 palettes per tag (absval.py)",
        "values of subclasses of built-in kinds: only order independence is demanded",
        "Vector([]) (schema None) is outside the statement",
    ]
    suite_types.mc(rep, tier)
    suite_types.gen(rep, tier)
    suite_types.trace(rep, tier, seed)


CHECKS = {
    "C04": c04,
}


def replay(prop, path, rep):
    """Re-execute one recorded violation against the current tree."""
    v = json.load(open(path))
    suite = v.get("suite", "")
    mod = suite.split(".")[0]
    import importlib
    m = importlib.import_module("suite_" + mod)
    if not hasattr(m, "replay_one"):
        raise engine.MachineryError(f"suite {mod} has no replay support")
    still = m.replay_one(v, rep)
    if still:
        print(f"VIOLATION property={prop} replay={path}")
        return 1
    print(f"replay of {path}: no longer fails")
    return 0
