"""Property -> decision procedure.  Each function fills an engine.Report."""
import json

import engine
import suite_types
import suite_join
import suite_sort
import suite_group
import suite_heap
import suite_vec
import suite_names
import suite_table
import suite_csv
import suite_repr
import suite_repo
import suite_misc


def c04(rep, tier, seed):
    rep.assumptions += [
        "tags abstract Python classes; concrete values come from 3 palettes per tag (absval.py)",
        "values of subclasses of built-in kinds: order independence, and the dtype inferred with the plain base-class value in their place",
        "Vector([]) (schema None) is outside the statement",
    ]
    suite_types.mc(rep, tier)
    suite_types.gen(rep, tier)
    suite_types.trace(rep, tier, seed)
    # results of arithmetic, joins, aggregates, window and CSV parsing are typed by the same rule
    # promotion through assignment and concatenation (every dtype x incoming kinds, nullable columns with and without a None in them)
    suite_vec.gen(rep, tier, ["atype"], ("promotion_dtype", "concat_dtype"))
    mon = _merge(suite_vec.gen(rep, tier, ["elem"], ()), suite_table.gen(rep, tier, ["arith"], ()),
                 suite_join.gen(rep, "quick", '{"inner","left","full"}', '{"many_to_many"}', ()),
                 suite_group.gen(rep, "quick", ()), suite_csv.gen(rep, tier, ()))
    evs, seen = [], set()
    for e in mon["rule"]:
        k = (e["kind"], e["nullable"], tuple(e["tags"]))
        if k not in seen:
            seen.add(k)
            evs.append(e)
    suite_types.validate(rep, evs, "c04.results", ("dtype_rule",))
    suite_vec.forms(rep, ("form_dtype", "form_concat"))       # the promoted dtype does not depend on the container the new cells arrive in (one-shot iterables ...)


JOIN_ASSUME = [
    "key dtype admissibility (no float keys, kinds must match) is a precondition: rejected calls are counted as skipped",
    "with zero result rows nothing is demanded of the result's columns",
    "abstract key values are mapped to int/str/bool/date palettes by order- and equality-preserving injections",
]


def c09(rep, tier, seed):
    rep.assumptions += JOIN_ASSUME
    suite_join.mc(rep, tier)
    seeds = (0, 1) if tier == "quick" else (0, 1, 2, 3, 5, 8, 13, 21)
    cl = ("rows_inner", "operands_unchanged", "names")
    # every expect word: where the expectation holds the rows and their order are those of the plain join
    suite_join.gen(rep, tier, '{"inner"}', suite_join.ALL_EXPECTS, cl, hashseeds=seeds)
    if tier == "quick":
        suite_join.gen(rep, tier, '{"inner"}', '{"many_to_many"}', cl, hashseeds=seeds[:1], scopes=[(2, 2)])
    suite_join.trace(rep, tier, seed, cl, kinds=("inner",), hashseed=seed % 1000)
    suite_vec.forms(rep, ("form_join",))                  # keys by stored name / column object / equal vector / accessor spelling
    suite_repo.validate(rep, {"join"}, cl)
    suite_heap.gen(rep, tier, "obst4", ("obs_join",))      # joins after write histories of the operands (also as right table, expect words in sequence)


def c10(rep, tier, seed):
    rep.assumptions += JOIN_ASSUME
    suite_join.mc(rep, tier)
    seeds = (0, 1) if tier == "quick" else (0, 1, 2, 3, 5, 8, 13, 21)
    cl = ("rows_left", "rows_full", "names")
    suite_join.gen(rep, tier, '{"left","full"}', suite_join.ALL_EXPECTS, cl, hashseeds=seeds)
    if tier == "quick":
        suite_join.gen(rep, tier, '{"left","full"}', '{"many_to_many"}', cl, hashseeds=seeds[:1], scopes=[(2, 2)])
    suite_join.trace(rep, tier, seed, cl, kinds=("left", "full"), hashseed=seed % 1000)
    suite_vec.forms(rep, ("form_join",))
    suite_repo.validate(rep, {"join"}, cl)
    suite_heap.gen(rep, tier, "obst4", ("obs_join",))      # joins after write histories of the operands (also as right table, expect words in sequence)


def c11(rep, tier, seed):
    rep.assumptions += JOIN_ASSUME
    suite_join.mc(rep, tier)
    cl = ("cardinality", "errclass", "rows_inner", "rows_left", "rows_full")
    suite_join.gen(rep, tier, '{"inner","left","full"}', suite_join.ALL_EXPECTS, cl)
    suite_join.trace(rep, tier, seed, ("cardinality", "errclass"), hashseed=seed % 1000)
    suite_vec.forms(rep, ("form_join",))      # "when the expectation holds the result is the plain join": the same table under every expect word
    suite_repo.validate(rep, {"join"}, ("cardinality", "errclass"))
    suite_heap.gen(rep, tier, "obst4", ("obs_join",))


REL_ASSUME = [
    "abstract key / value integers are mapped to concrete int/str/date/float/bool values by order- and equality-preserving palettes",
    "mean and stdev are compared as exact rationals recovered from the float result (relative 1e-9)",
]


def c12(rep, tier, seed):
    rep.assumptions += REL_ASSUME + ["output names of aggregate are C18's concern; dtypes C03/C04's"]
    suite_group.mc(rep, tier)
    seeds = (0, 1) if tier == "quick" else (0, 1, 2, 3, 5, 8)
    suite_group.gen(rep, tier, suite_group.C12_CLAUSES, hashseeds=seeds)
    suite_group.trace(rep, tier, seed, suite_group.C12_CLAUSES, ops=("aggregate", "reduce"))
    suite_vec.forms(rep, ("form_aggregate", "history_read"))
    suite_repo.validate(rep, {"group"}, suite_group.C12_CLAUSES)
    suite_heap.gen(rep, tier, "obsv1", ("obs_stats",))
    suite_heap.gen(rep, tier, "obst4", ("obs_agg",))


def c13(rep, tier, seed):
    rep.assumptions += REL_ASSUME
    suite_group.mc(rep, tier)
    suite_group.gen(rep, tier, suite_group.C13_CLAUSES)
    suite_group.trace(rep, tier, seed, suite_group.C13_CLAUSES, ops=("window",))
    suite_vec.forms(rep, ("form_window",))
    suite_repo.validate(rep, {"group"}, suite_group.C13_CLAUSES)
    suite_heap.gen(rep, tier, "obst4", ("obs_agg",))


def c14(rep, tier, seed):
    rep.assumptions += REL_ASSUME + ["Vector.sort_by stability is observed through equal-but-distinguishable values (1 vs 1.0)"]
    suite_sort.mc(rep, tier)
    suite_sort.gen(rep, tier)
    suite_sort.trace(rep, tier, seed)
    suite_vec.forms(rep, ("form_sort_by", "history_read"))
    suite_repo.validate(rep, {"sort"}, suite_sort.CLAUSES + ("sort_rows",))
    suite_heap.gen(rep, tier, "obsv2", ("obs_sort",))
    suite_heap.gen(rep, tier, "obst4", ("obs_sort",))


HEAP_ASSUME = [
    "SerifHeap abstracts element values to {0, 1, None, one float}; lengths <= 2 (model) / <= 3 (traces)",
    "liveness is reference counting: dropping the last reference kills an object immediately",
    "internal reads (_ALIAS_TRACKER._registry, _fp, _underlying identity) are used only to project the state; "
    "under-registration and memo presence are recorded as notes, never as violations",
]


def c01(rep, tier, seed):
    rep.assumptions += HEAP_ASSUME + ["a column obtained from a table is a live view: writing through it changes that table"]
    cl = ("contents@other", "name@other", "dtype@other", "sharing", "structure", "leaked_write", "contents", "name", "dtype", "liveness")
    suite_heap.mc(rep, tier, ["tables", "alias"])
    suite_heap.devs(rep, ["SetAttrShare"])
    suite_heap.gen(rep, tier, "tables", cl)
    suite_heap.gen(rep, tier, "tables2", cl)
    suite_heap.gen(rep, "quick", "alias", cl)       # sharers of one tuple: "a write that cannot be kept local is refused" (with refused writes in between, odd variants)
    suite_heap.trace(rep, tier, seed, cl)
    # a table assignment refused with AliasError (one addressed column shares its storage) changes nothing;
    # table-level operations never change their operands
    suite_table.gen(rep, tier, ["tassign"] + ([] if tier == "quick" else ["select", "arith"]), ("refused_changes_nothing", "operands_unchanged"))
    suite_table.enumerated(rep, "struct", ("operands_unchanged",))
    suite_table.enumerated(rep, "twice", ("derived_independent",))      # sizes 1, 3, 70, 1100
    suite_vec.gen(rep, tier, ["atype"], ("atomic",))       # a write that fails (type, index, overflow) leaves contents, dtype and fingerprint as they were
    suite_vec.forms(rep, ("operands_unchanged", "derived_independent"))       # every value-returning vector operation x same / wider / incompatible arguments x free vector / live column
    # derived results are new, independent objects whatever was computed before (same sort twice, ...)
    suite_heap.gen(rep, tier, "obst1", ("obs_sort", "contents@other", "name@other"))
    if tier != "quick":
        # growth: further value-returning operations (unique, argsort, @, peek) must be pure as well
        suite_misc.gen(rep, ["unique", "argsort", "dot", "matvec", "sample", "transpose", "pluck"], ("operands_unchanged",))


def c02(rep, tier, seed):
    rep.assumptions += HEAP_ASSUME + ["'rejected rather than stored' = an exception or a non-Table result"]
    cl = ("rectangular", "row_view", "ragged_outcome", "structure")
    suite_heap.mc(rep, tier, ["tables"])
    suite_heap.devs(rep, ["RaggedAccepted"])
    suite_heap.gen(rep, tier, "tables2deep", cl)        # incl. zero-length vectors and zero-row tables
    suite_heap.gen(rep, tier, "obst2", ("obs_iter", "obs_select"))   # rows by index / iteration / NESTED iteration, selections, T, >> after any write history
    if tier != "quick":
        suite_heap.gen(rep, tier, "tables", cl)
    suite_heap.trace(rep, tier, seed, cl)
    suite_table.enumerated(rep, "struct", cl + ("stack", "append_rows", "transpose", "construct"))
    suite_vec.forms(rep, ("rectangular", "grid_read", "derived_current", "derived_independent", "form_index", "transpose", "row_view", "append_rows", "stack"))
    # "row slices and masks apply uniformly to all columns": every slice (start / stop / step incl. negative steps) and mask on tables
    suite_vec.gen(rep, tier, ["slice", "mask"], ("table_rows",))


def c15(rep, tier, seed):
    rep.assumptions += HEAP_ASSUME + [
        "a shared write that is not refused but stays local (copy-on-write) is allowed; only refusal without sharing, "
        "a write visible through another vector, or a live registration under an identity its owner does not use are violations",
    ]
    cl = ("spurious_refusal", "leaked_write", "registry", "sharing")
    suite_heap.mc(rep, tier, ["alias", "tables", "share"])
    suite_heap.devs(rep, ["NoUnregister", "SetAttrNoReregister", "ConcatShares"])
    suite_heap.gen(rep, tier, "alias", cl)
    suite_heap.gen(rep, tier, "share", cl)        # 3-4 sharers of one tuple dropped in every order, then written
    suite_heap.gen(rep, tier, "tables", cl)
    suite_heap.trace(rep, tier, seed, cl)
    # multi-column table assignment while an UNADDRESSED column shares its storage must not be refused
    suite_table.gen(rep, tier, ["tassign"], ("spurious_refusal",))
    suite_table.enumerated(rep, "struct", ("spurious_refusal", "leaked_write"))      # tables built from the caller's own tuples
    suite_vec.forms(rep, ("derived_independent",))      # the same derivation asked twice: both results writable, neither sees the other


def c16(rep, tier, seed):
    rep.assumptions += HEAP_ASSUME + ["hash collisions of the 61-bit fingerprint are excluded by the small value palette"]
    cl = ("fp_value", "outcome", "fp_order")
    suite_vec.enumerated(rep, "fplaws", cl)
    suite_vec.forms(rep, ("history_read", "operands_unchanged", "fp_fresh"))      # incl. "read-only operations never change it"; after promoting and refused writes the fingerprint is a fresh vector's
    suite_heap.mc(rep, tier, ["alias", "tables", "fp"])
    suite_heap.devs(rep, ["VecFpNotInvalidated", "TableFpMemo"])
    suite_heap.gen(rep, tier, "fp", cl)           # deep interleavings of fingerprint() reads with writes (paths of 6-8 calls)
    suite_heap.gen(rep, tier, "obsv2", cl + ("obs_fp",))   # incl. values whose hash() collide and dtype histories
    suite_heap.gen(rep, tier, "alias", cl)
    suite_heap.gen(rep, tier, "tables", cl)
    suite_heap.trace(rep, tier, seed, cl)


VEC_ASSUME = [
    "Python's own scalar operation is the oracle for element values (the spec fixes operands, order, None and errors)",
    "cases whose scalar operation Python itself does not define are skipped and counted",
]
C05_CL = ("elementwise", "shape", "length_mismatch")
C06_CL = ("none_handling", "none_compare", "isna", "dropna", "dropna_nullable", "fillna", "fillna_nullable", "reduce_none", "len_counts_none")
C07_CL = ("slice", "slice_kind", "mask", "mask_length", "int_index", "table_rows", "compare", "compare_dtype")
C08_CL = ("assign", "assign_shape", "assign_reject", "atomic", "fault_swallowed", "incompatible_accepted", "reject_class",
          "compatible_rejected", "promotion_dtype", "promotion_contents")


def c05(rep, tier, seed):
    rep.assumptions += VEC_ASSUME
    suite_vec.mc(rep, tier)
    suite_vec.gen(rep, tier, ["elem"], C05_CL)
    suite_table.gen(rep, tier, ["arith"], ("table_arith", "table_width_mismatch"))
    suite_table.enumerated(rep, "methods", ("broadcast", "length_mismatch"))
    suite_vec.forms(rep, ("form_elementwise", "history_read", "form_broadcast"))          # tuple / range / Vector / Row / column / one-shot iterables as operand
    suite_vec.trace(rep, tier, seed, C05_CL, ops=("elem",))
    suite_heap.gen(rep, tier, "obsv1", ("obs_unary",))      # unary results after any history = on a fresh equal vector


def c06(rep, tier, seed):
    rep.assumptions += VEC_ASSUME + ["all-None min/max/mean/stdev: only 'None is not treated as a value' is demanded"]
    suite_vec.mc(rep, tier)
    suite_vec.gen(rep, tier, ["na", "elem"], C06_CL)
    suite_vec.trace(rep, tier, seed, C06_CL, ops=("elem", "na"))
    suite_vec.forms(rep, ("form_compare_none", "history_read", "form_none_propagates"))
    # "... and the per-group aggregates": groups holding None (also nothing but None) in aggregate and window
    suite_group.gen(rep, tier, ("agg_value", "window_value", "reduce_value"))
    suite_heap.gen(rep, tier, "obsv1", ("obs_na", "obs_stats"))


def c07(rep, tier, seed):
    rep.assumptions += VEC_ASSUME + ["SliceIdx is cross-validated against Python's own list(range(n))[slice]; a disagreement is a spec bug (exit 2)"]
    suite_vec.mc(rep, tier)
    suite_vec.gen(rep, tier, ["slice", "mask", "int", "elem"], C07_CL)
    suite_table.gen(rep, tier, ["select"], ("missing_column", "select_cols", "string_index", "commute"))
    suite_table.enumerated(rep, "struct", ("missing_column", "row_view"))      # also names that are attributes of Table / Vector; t[i] is the row of the i-th cells, positions the columns do not have raise
    suite_vec.trace(rep, tier, seed, C07_CL, ops=("slice", "mask"))
    suite_vec.forms(rep, ("form_index", "grid_read", "derived_independent", "form_compare_none", "form_logic"))      # incl. t[rows, cols] with every combination of key kinds against the plain grid
    suite_misc.gen(rep, ["tcompare", "isinstance"], ("table_compare", "table_compare_dtype"))   # t == x ...: one <bool> column per column, None compares False
    suite_repo.validate(rep, {"getitem"}, ("getitem", "index_accepts", "index_rejects"))     # every v[key] the repository's own tests execute
    suite_heap.gen(rep, tier, "obsv2", ("obs_cmp",))
    suite_heap.gen(rep, tier, "obst3", ("obs_select",))     # selections after rename histories (live view / rename_column)
    if tier != "quick":
        suite_heap.gen(rep, tier, "obst2", ("obs_select",))


def c08(rep, tier, seed):
    rep.assumptions += VEC_ASSUME + ["a wider value into a bool column: promotion or SerifTypeError-with-nothing-changed are both accepted"]
    suite_vec.mc_assign(rep)
    suite_vec.gen(rep, tier, ["assign", "atype"], C08_CL)
    suite_table.gen(rep, tier, ["tassign", "rename"], C08_CL + ("table_atomic", "table_assign_cells", "rename", "rename_reject", "rename_atomic"))
    suite_vec.trace(rep, tier, seed, C08_CL, ops=("assign",))
    suite_vec.forms(rep, ("form_assign", "form_assign_atomic", "grid_write", "grid_atomic"))
    suite_repo.validate(rep, {"setitem"}, ("assign", "assign_reject", "atomic"))              # every v[key] = x the repository's own tests execute
    suite_heap.gen(rep, tier, "tables", ("contents@target", "write_error", "setattr_error"))
    # cell assignment keyed by a column NAME after renames made through a live column / rename_column: the addressed cells only
    suite_heap.gen(rep, tier, "names", ("lookup", "contents@target", "contents@other", "write_error"))


def c17(rep, tier, seed):
    rep.assumptions += [
        "str.lower() is left to Python; the spec sanitises the lower-cased name",
        "'valid identifier' = str.isidentifier() (keywords such as 'class' pass)",
        "only ADVERTISED accessors are constrained; extra spellings that also resolve (col<N>_, case variants) are not violations",
        "the reserved set is read from dir(Vector) / dir(Table) at run time",
    ]
    cl = suite_names.C17_GEN + ("accessor_map", "distinct", "lookup", "setattr_error")
    suite_names.gen(rep, tier, ["sanitize", "accessors"], cl)
    suite_names.trace(rep, tier, seed, cl)
    suite_heap.mc(rep, tier, ["names"])
    suite_heap.devs(rep, ["CmapStale", "DirTames"])
    suite_heap.gen(rep, tier, "names", cl)
    suite_heap.gen(rep, tier, "obst3", ("obs_names", "obs_select"))


def _merge(*mons):
    out = {"truth": [], "rule": [], "writeback": []}
    for m in mons:
        if m:
            for k in out:
                out[k] += m.get(k, [])
    return out


def _producers(rep, tier, seed, clauses=()):
    """run the suites that produce vectors (results, mutated targets, table columns); return their monitor events"""
    q = tier == "quick"
    mons = [
        suite_types.gen(rep, tier, clauses),
        suite_vec.gen(rep, tier, ["elem", "na", "atype"] + ([] if q else ["slice", "assign"]), clauses),
        suite_table.gen(rep, tier, ["arith", "tassign"] + ([] if q else ["select"]), clauses),
        suite_table.enumerated(rep, "struct", clauses),
        suite_vec.enumerated(rep, "casts", clauses),
        suite_join.gen(rep, "quick", '{"left","full"}', '{"many_to_many"}', clauses),
        suite_sort.gen(rep, "quick", clauses),
        suite_group.gen(rep, "quick", clauses),
        suite_csv.gen(rep, "quick", clauses),
        suite_vec.forms(rep, clauses),          # derived objects (rows, slices of rows, casts ...) before and after promoting writes
    ]
    if not q:
        mons += [suite_join.trace(rep, tier, seed, clauses, hashseed=seed % 1000), suite_sort.trace(rep, tier, seed, clauses),
                 suite_group.trace(rep, tier, seed, clauses), suite_csv.random_texts(rep, tier, seed, clauses)]
    return _merge(*mons)


def c03(rep, tier, seed):
    rep.assumptions += [
        "every vector any suite obtains from the library (results, mutated targets, table columns) is abstracted to "
        "(dtype, set of element classes) and judged by the TLA+ predicate Truthful (Trace_Types)",
        "vectors holding values of subclasses / exotic classes are outside the tag universe and skipped",
        "which truthful dtype is chosen is C04's concern",
    ]
    suite_types.mc(rep, tier)
    mon = _producers(rep, tier, seed)
    evs = []
    seen = set()
    for e in mon["truth"]:
        k = (e["kind"], e["nullable"], tuple(e["tags"]), e.get("origin"))
        if k not in seen:
            seen.add(k)
            evs.append(e)
    suite_types.validate(rep, evs, "c03.monitor", ("dtype_truthful", "unknown_kind"))
    suite_repo.validate(rep, {"truth"}, ("dtype_truthful",))
    suite_misc.gen(rep, ["cast"], ("cast_dtype", "cast_none"))     # cast(T): kind T, nullable exactly when a None occurs
    rep.extra["vectors_classes_inspected"] = len(evs)
    for w in mon["writeback"]:
        rep.fail("writeback", "c03.monitor", {"origin": w["origin"], "values": w["values"], "dtype": w.get("dtype")},
                 w["observed"], "element written back into its own position: accepted, dtype unchanged")
    suite_heap.gen(rep, tier, "alias", ("dtype@target",))
    if tier != "quick":
        suite_heap.gen(rep, tier, "tables", ("dtype@target",))


def c18(rep, tier, seed):
    rep.assumptions += [
        "unary operators, dropna, <<, T, unique and method broadcasts are not named in the statement: not checked",
        "aggregate/window: key columns keep their stored name ('key' if unnamed), aggregates are <sanitised>_<fn>, uniquified left to right",
    ]
    cl = ("names", "name@target", "name@other", "agg_names", "agg_names_distinct", "keys_first")
    q = tier == "quick"
    suite_names.gen(rep, tier, ["agg", "agg2"], cl)
    suite_vec.gen(rep, tier, ["elem", "mask"] + ([] if q else ["slice"]), cl)
    suite_table.gen(rep, tier, ["arith", "select"], cl)
    suite_table.enumerated(rep, "struct", cl)
    suite_table.enumerated(rep, "methods", cl)          # date arithmetic between named vectors
    suite_join.gen(rep, "quick", '{"inner","full"}', '{"many_to_many"}', cl)
    suite_sort.gen(rep, "quick", cl)
    suite_group.gen(rep, "quick", cl)
    suite_vec.forms(rep, ("agg_names", "names"))        # promoting writes keep names (every write form); non-string column names in aggregate / window
    suite_heap.mc(rep, tier, ["names"], coverage=False)       # (the vacuity guard of this facet runs in C17)
    suite_heap.gen(rep, tier, "names", cl)
    suite_heap.gen(rep, tier, "obst3", ("obs_agg", "obs_names"))       # aggregate / window output names after rename histories
    if not q:
        suite_join.trace(rep, tier, seed, cl, hashseed=seed % 1000)
        suite_sort.trace(rep, tier, seed, cl)
        suite_heap.gen(rep, tier, "tables", cl)


def c19(rep, tier, seed):
    rep.assumptions += [
        "the csv module is the trusted lexer: grids are rendered with csv.writer (minimal / full quoting, four delimiters, LF / CRLF) and "
        "grids the csv module itself does not round-trip are skipped",
        "int() / float() acceptance of a stripped text is Python's (the statement's own oracle)",
        "records longer than the header are outside the statement",
    ]
    mon = suite_csv.gen(rep, tier, suite_csv.C19_CL)
    mon2 = suite_csv.random_texts(rep, tier, seed, suite_csv.C19_CL)
    evs, seen = [], set()
    for e in mon["rule"] + mon2["rule"]:
        k = (e["kind"], e["nullable"], tuple(e["tags"]))
        if k not in seen:
            seen.add(k)
            evs.append(e)
    suite_types.validate(rep, evs, "c19.column_dtypes", ("dtype_rule",))


def c20(rep, tier, seed):
    rep.assumptions += [
        "number formatting, alignment and quoting are not checked (rows are recognised by rendering distinguishable ints); for short data, two objects that differ in one visible cell must print differently and a text cell shows its stored text",
        "'# empty' is accepted as stating zero elements; '<mixed>' is accepted iff the column dtypes differ, and then the [dtype] header row must be true",
    ]
    suite_repr.gen(rep, tier)
    suite_repr.values(rep)
    suite_repr.state(rep, tier)
    suite_vec.forms(rep, ("history_read",))
    suite_heap.gen(rep, tier, "obsv2", ("obs_repr",))
    suite_heap.gen(rep, tier, "obst3", ("obs_repr",))       # incl. zero-row tables renamed through a live column


CHECKS = {
    "C20": c20,
    "C19": c19,
    "C03": c03,
    "C18": c18,
    "C17": c17,
    "C05": c05,
    "C06": c06,
    "C07": c07,
    "C08": c08,
    "C01": c01,
    "C02": c02,
    "C15": c15,
    "C16": c16,
    "C12": c12,
    "C13": c13,
    "C14": c14,
    "C09": c09,
    "C10": c10,
    "C11": c11,
    "C04": c04,
}


GEN_DRIVERS = {
    "types.gen": ("drv_types.py", lambda cp, op: ["replay", cp, op]),
    "join.gen": ("drv_rel.py", lambda cp, op: ["replay_join", cp, op]),
    "sort.gen": ("drv_rel.py", lambda cp, op: ["replay_sort", cp, op]),
    "group.gen": ("drv_rel.py", lambda cp, op: ["replay_group", cp, op]),
    "csv.gen": ("drv_csv.py", lambda cp, op: ["replay", cp, op]),
    "repr.layout": ("drv_repr.py", lambda cp, op: ["replay", cp, op]),
}


def replay(prop, path, rep):
    """Re-execute one recorded violation against the current tree; exit 1 if it still fails.

    Cases generated by TLC are self-contained (the case, its index-derived variant, the hash seed):
    the single case is handed to the suite's driver again.  Violations found on recorded executions
    (direction "trace") or by enumerated sweeps are reproduced by re-running the check with the
    recorded tier and seed and looking for the same clause in the same suite."""
    import os
    v = json.load(open(path))
    suite, clause, case = v.get("suite", ""), v.get("clause"), v.get("case")
    sc = engine.scratch()
    cp, op = os.path.join(sc, "replay_case.json"), os.path.join(sc, "replay_out.json")
    spec = None
    if v.get("direction") == "gen":
        if suite in GEN_DRIVERS:
            spec = GEN_DRIVERS[suite]
            inner = case.get("case", case)
        elif suite.startswith("vec."):
            spec = ("drv_vec.py", lambda c, o, s=suite[4:]: ["replay", s, c, o])
            inner = case.get("case", case)
        elif suite.startswith("table.") and suite[6:] in ("select", "arith", "tassign", "rename"):
            spec = ("drv_table.py", lambda c, o, s=suite[6:]: ["replay", s, c, o])
            inner = case.get("case", case)
        elif suite.startswith("names.") and suite != "names.trace":
            spec = ("drv_names.py", lambda c, o: ["replay", c, o])
            inner = case.get("case", case)
        elif suite.startswith("heap.gen."):
            inner = {"path": case["path"], "post": case["post"], "variant": case.get("variant", 0),
                     "palette": case.get("palette", "plain")}
            with open(cp, "w") as f:
                f.write(json.dumps(inner) + "\n")
            engine.run_driver("drv_heap.py", ["replay", cp, op, "1"])
            out = json.load(open(op))
            still = [f for f in out["failures"] if f["clause"] == clause]
            return _replay_verdict(prop, path, still)
    if spec is not None:
        json.dump([inner], open(cp, "w"))
        engine.run_driver(spec[0], spec[1](cp, op), hashseed=case.get("hashseed", 0) if isinstance(case, dict) else 0)
        out = json.load(open(op))
        still = [f for f in out["failures"] if f["clause"] == clause]
        return _replay_verdict(prop, path, still)
    # fall back: re-run the whole decision procedure with the recorded tier and seed
    rep.tier, rep.seed = v.get("tier", rep.tier), v.get("seed", rep.seed)
    CHECKS[prop](rep, rep.tier, rep.seed)
    still = [f for f in rep.failures if f["clause"] == clause and f["suite"] == suite]
    return _replay_verdict(prop, path, still)


def _replay_verdict(prop, path, still):
    if still:
        f = still[0]
        print(f"VIOLATION property={prop} replay={path}")
        print(f"  still fails: clause={f['clause']} observed={json.dumps(f['observed'], default=str)[:300]}")
        return 1
    print(f"replay of {path}: no longer fails on the current tree")
    return 0
