"""Property -> decision procedure.  Each function fills an engine.Report."""
import json

import engine
import suite_types
import suite_join
import suite_sort
import suite_group
import suite_heap
import suite_vec
import suite_names


def c04(rep, tier, seed):
    rep.assumptions += [
        "tags abstract Python classes; concrete values come from 3 palettes per tag (absval.py)",
        "values of subclasses of built-in kinds: only order independence is demanded",
        "Vector([]) (schema None) is outside the statement",
    ]
    suite_types.mc(rep, tier)
    suite_types.gen(rep, tier)
    suite_types.trace(rep, tier, seed)


JOIN_ASSUME = [
    "key dtype admissibility (no float keys, kinds must match) is a precondition: rejected calls are counted as skipped",
    "with zero result rows nothing is demanded of the result's columns",
    "abstract key values are mapped to int/str/bool/date palettes by order- and equality-preserving injections",
]


def c09(rep, tier, seed):
    rep.assumptions += JOIN_ASSUME
    suite_join.mc(rep, tier)
    seeds = (0, 1) if tier == "quick" else (0, 1, 2, 3, 5, 8, 13, 21)
    cl = ("rows_inner", "operands_unchanged")
    suite_join.gen(rep, tier, '{"inner"}', '{"many_to_many"}', cl, hashseeds=seeds)
    suite_join.trace(rep, tier, seed, cl, kinds=("inner",), hashseed=seed % 1000)


def c10(rep, tier, seed):
    rep.assumptions += JOIN_ASSUME
    suite_join.mc(rep, tier)
    seeds = (0, 1) if tier == "quick" else (0, 1, 2, 3, 5, 8, 13, 21)
    cl = ("rows_left", "rows_full")
    suite_join.gen(rep, tier, '{"left","full"}', '{"many_to_many"}', cl, hashseeds=seeds)
    suite_join.trace(rep, tier, seed, cl, kinds=("left", "full"), hashseed=seed % 1000)


def c11(rep, tier, seed):
    rep.assumptions += JOIN_ASSUME
    suite_join.mc(rep, tier)
    cl = ("cardinality", "errclass", "rows_inner", "rows_left", "rows_full")
    suite_join.gen(rep, tier, '{"inner","left","full"}', suite_join.ALL_EXPECTS, cl)
    suite_join.trace(rep, tier, seed, ("cardinality", "errclass"), hashseed=seed % 1000)


REL_ASSUME = [
    "abstract key / value integers are mapped to concrete int/str/date/float/bool values by order- and equality-preserving palettes",
    "mean and stdev are compared as exact rationals recovered from the float result (relative 1e-9)",
]


def c12(rep, tier, seed):
    rep.assumptions += REL_ASSUME + ["output names of aggregate are C18's concern; dtypes C03/C04's"]
    suite_group.mc(rep, tier)
    seeds = (0, 1) if tier == "quick" else (0, 1, 2, 3, 5, 8)
    suite_group.gen(rep, tier, suite_group.C12_CLAUSES, hashseeds=seeds)
    suite_group.trace(rep, tier, seed, suite_group.C12_CLAUSES, ops=("aggregate", "reduce"))


def c13(rep, tier, seed):
    rep.assumptions += REL_ASSUME
    suite_group.mc(rep, tier)
    suite_group.gen(rep, tier, suite_group.C13_CLAUSES)
    suite_group.trace(rep, tier, seed, suite_group.C13_CLAUSES, ops=("window",))


def c14(rep, tier, seed):
    rep.assumptions += REL_ASSUME + ["Vector.sort_by stability is observed through equal-but-distinguishable values (1 vs 1.0)"]
    suite_sort.mc(rep, tier)
    suite_sort.gen(rep, tier)
    suite_sort.trace(rep, tier, seed)


HEAP_ASSUME = [
    "SerifHeap abstracts element values to {0, 1, None, one float}; lengths <= 2 (model) / <= 3 (traces)",
    "liveness is reference counting: dropping the last reference kills an object immediately",
    "internal reads (_ALIAS_TRACKER._registry, _fp, _underlying identity) are used only to project the state; "
    "under-registration and memo presence are recorded as notes, never as violations",
]


def c01(rep, tier, seed):
    rep.assumptions += HEAP_ASSUME + ["a column obtained from a table is a live view: writing through it changes that table"]
    cl = ("contents@other", "name@other", "dtype@other", "sharing", "structure", "leaked_write", "contents", "name", "dtype", "liveness")
    suite_heap.mc(rep, tier, ["tables", "alias"])
    suite_heap.devs(rep, ["SetAttrShare"])
    suite_heap.gen(rep, tier, "tables", cl)
    suite_heap.gen(rep, tier, "tables2", cl)
    suite_heap.trace(rep, tier, seed, cl)


def c02(rep, tier, seed):
    rep.assumptions += HEAP_ASSUME + ["'rejected rather than stored' = an exception or a non-Table result"]
    cl = ("rectangular", "row_view", "ragged_outcome", "structure")
    suite_heap.mc(rep, tier, ["tables"])
    suite_heap.devs(rep, ["RaggedAccepted"])
    suite_heap.gen(rep, tier, "tables2", cl)
    suite_heap.gen(rep, tier, "tables", cl)
    suite_heap.trace(rep, tier, seed, cl)


def c15(rep, tier, seed):
    rep.assumptions += HEAP_ASSUME + [
        "a shared write that is not refused but stays local (copy-on-write) is allowed; only refusal without sharing, "
        "a write visible through another vector, or a live registration under an identity its owner does not use are violations",
    ]
    cl = ("spurious_refusal", "leaked_write", "registry", "sharing")
    suite_heap.mc(rep, tier, ["alias", "tables"])
    suite_heap.devs(rep, ["NoUnregister", "SetAttrNoReregister"])
    suite_heap.gen(rep, tier, "alias", cl)
    suite_heap.gen(rep, tier, "tables", cl)
    suite_heap.trace(rep, tier, seed, cl)


def c16(rep, tier, seed):
    rep.assumptions += HEAP_ASSUME + ["hash collisions of the 61-bit fingerprint are excluded by the small value palette"]
    cl = ("fp_value", "outcome")
    suite_heap.mc(rep, tier, ["alias", "tables"])
    suite_heap.devs(rep, ["VecFpNotInvalidated", "TableFpMemo"])
    suite_heap.gen(rep, tier, "alias", cl)
    suite_heap.gen(rep, tier, "tables", cl)
    suite_heap.trace(rep, tier, seed, cl)


VEC_ASSUME = [
    "Python's own scalar operation is the oracle for element values (the spec fixes operands, order, None and errors)",
    "cases whose scalar operation Python itself does not define are skipped and counted",
]
C05_CL = ("elementwise", "shape", "length_mismatch")
C06_CL = ("none_handling", "none_compare", "isna", "dropna", "dropna_nullable", "fillna", "fillna_nullable", "reduce_none", "len_counts_none")
C07_CL = ("slice", "slice_kind", "mask", "mask_length", "int_index", "table_rows", "compare", "compare_dtype")
C08_CL = ("assign", "assign_shape", "assign_reject", "atomic", "fault_swallowed", "incompatible_accepted", "reject_class",
          "compatible_rejected", "promotion_dtype", "promotion_contents")


def c05(rep, tier, seed):
    rep.assumptions += VEC_ASSUME
    suite_vec.mc(rep, tier)
    suite_vec.gen(rep, tier, ["elem"], C05_CL)


def c06(rep, tier, seed):
    rep.assumptions += VEC_ASSUME + ["all-None min/max/mean/stdev: only 'None is not treated as a value' is demanded"]
    suite_vec.mc(rep, tier)
    suite_vec.gen(rep, tier, ["na", "elem"], C06_CL)


def c07(rep, tier, seed):
    rep.assumptions += VEC_ASSUME + ["SliceIdx is cross-validated against Python's own list(range(n))[slice]; a disagreement is a spec bug (exit 2)"]
    suite_vec.mc(rep, tier)
    suite_vec.gen(rep, tier, ["slice", "mask", "int", "elem"], C07_CL)


def c08(rep, tier, seed):
    rep.assumptions += VEC_ASSUME + ["a wider value into a bool column: promotion or SerifTypeError-with-nothing-changed are both accepted"]
    suite_vec.mc_assign(rep)
    suite_vec.gen(rep, tier, ["assign", "atype"], C08_CL)
    suite_heap.gen(rep, tier, "tables", ("contents@target", "write_error", "setattr_error"))


def c17(rep, tier, seed):
    rep.assumptions += [
        "str.lower() is left to Python; the spec sanitises the lower-cased name",
        "'valid identifier' = str.isidentifier() (keywords such as 'class' pass)",
        "only ADVERTISED accessors are constrained; extra spellings that also resolve (col<N>_, case variants) are not violations",
        "the reserved set is read from dir(Vector) / dir(Table) at run time",
    ]
    cl = suite_names.C17_GEN + ("accessor_map", "distinct", "lookup", "setattr_error")
    suite_names.gen(rep, tier, ["sanitize", "accessors"], cl)
    suite_names.trace(rep, tier, seed, cl)
    suite_heap.mc(rep, tier, ["names"])
    suite_heap.devs(rep, ["CmapStale"])
    suite_heap.gen(rep, tier, "names", cl)


CHECKS = {
    "C17": c17,
    "C05": c05,
    "C06": c06,
    "C07": c07,
    "C08": c08,
    "C01": c01,
    "C02": c02,
    "C15": c15,
    "C16": c16,
    "C12": c12,
    "C13": c13,
    "C14": c14,
    "C09": c09,
    "C10": c10,
    "C11": c11,
    "C04": c04,
}


def replay(prop, path, rep):
    """Re-execute one recorded violation against the current tree."""
    v = json.load(open(path))
    suite = v.get("suite", "")
    mod = suite.split(".")[0]
    import importlib
    m = importlib.import_module("suite_" + mod)
    if not hasattr(m, "replay_one"):
        raise engine.MachineryError(f"suite {mod} has no replay support")
    still = m.replay_one(v, rep)
    if still:
        print(f"VIOLATION property={prop} replay={path}")
        return 1
    print(f"replay of {path}: no longer fails")
    return 0
