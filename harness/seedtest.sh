#!/bin/sh
# usage: seedtest.sh <dir with patch.diff demo.py> <prop>...   : apply a seeded change to /repo, confirm it, run checks, undo it
d="$1"; shift
cd /repo || exit 2
git diff --quiet || { echo "repo dirty"; exit 2; }
echo "== demo on the unchanged tree (must pass)"; PYTHONPATH=/repo/src /venv/bin/python -W ignore "$d/demo.py" >/dev/null 2>&1; echo "   exit=$?"
git apply "$d/patch.diff" || { echo "patch does not apply"; exit 2; }
echo "== existing suite with the change"; /venv/bin/python -m pytest -q -p no:cacheprovider 2>&1 | tail -1
echo "== demo with the change (must fail)"; PYTHONPATH=/repo/src /venv/bin/python -W ignore "$d/demo.py" >/dev/null 2>&1; echo "   exit=$?"
for p in "$@"; do
  (cd /verif && VERIF_TIER=${TIER:-quick} ./check $p 2>&1 | grep -E "^(OK|VIOLATION|MACHINERY|KNOWN|  clause)" | head -6)
done
git checkout -- .
