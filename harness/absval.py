"""Abstract <-> concrete values shared by all bindings.

Tags are the element classes of spec/SerifTypes.tla.  `concrete(tag, v, palette)` is an
equality- and order-preserving injection per tag; `tag_of(x)` / `kind_tag(k)` abstract
what the library reports.  Nothing here imports serif.
"""
from __future__ import annotations

import math
from datetime import date, datetime, timedelta
from decimal import Decimal
from fractions import Fraction

TAGS = ["none", "bool", "int", "float", "complex", "str", "bytes", "date", "datetime",
        "list", "dict", "tuple", "otherA", "otherB"]

_KIND_TAG = {bool: "bool", int: "int", float: "float", complex: "complex", str: "str",
             bytes: "bytes", date: "date", datetime: "datetime", list: "list", dict: "dict",
             tuple: "tuple", object: "object", Decimal: "otherA", Fraction: "otherB"}


def kind_tag(kind) -> str:
    """Name of a DataType.kind as a spec kind; unknown classes get a name outside Kinds."""
    if kind is None:
        return "nokind"
    return _KIND_TAG.get(kind, "unknown:" + getattr(kind, "__name__", repr(kind)))


def tag_of(x) -> str:
    """Exact-class tag of a Python value (subclasses are NOT folded: they are reported as
    'sub:<base>' so that callers can decide to skip them)."""
    if x is None:
        return "none"
    t = type(x)
    if t in _KIND_TAG and t is not object:
        return _KIND_TAG[t]
    for base, name in ((bool, "bool"), (int, "int"), (float, "float"), (complex, "complex"),
                       (str, "str"), (bytes, "bytes"), (datetime, "datetime"), (date, "date"),
                       (list, "list"), (dict, "dict"), (tuple, "tuple")):
        if isinstance(x, base):
            return "sub:" + name
    return "unknown:" + t.__name__


def concrete(tag: str, v: int = 0, palette: int = 0):
    """Concrete value number v (small int, may be negative) of class `tag`."""
    if tag == "none":
        return None
    if tag == "bool":
        return bool(v % 2)
    if tag == "intc":
        # distinct ints whose hash() collides pairwise: -1 / -2, 0 / 2**61-1 (equality preserving, NOT order preserving)
        return {0: 0, 1: -1, 2: -2, 3: 2 ** 61 - 1, 4: 2 ** 61 - 2, 5: -(2 ** 61) + 1}.get(v, v)
    if tag == "int":
        return [v, v * 10 ** 12 + (1 if v else 0), v - 1000][palette % 3]
    if tag == "float":
        return [v + 0.5, v * 1e200 + 0.25, (v + 0.5) * 3.0][palette % 3]
    if tag == "complex":
        return complex(v, 1 + palette)
    if tag == "str":
        return ["k%02d" % v if v >= 0 else "j%02d" % (99 + v), "é%03d" % (v + 500), "s%03d " % (v + 10)][palette % 3]
    if tag == "bytes":
        return b"b%02d" % (v + 50)
    if tag == "date":
        return date(2020 + (palette % 3), 1, 1) + timedelta(days=v)
    if tag == "datetime":
        return datetime(2021, 6, 1, 12, 0) + timedelta(days=v, minutes=palette)
    if tag == "dtsame":
        # timestamps of ONE calendar day (order preserving): ordering must look at the time of day
        return datetime(2021, 6, 1, 0, 0) + timedelta(minutes=37 * v + 400 + palette)
    if tag == "list":
        return [v, palette]
    if tag == "dict":
        return {"k": v}
    if tag == "tuple":
        return (v, "t")
    if tag == "otherA":
        return Decimal(v) + Decimal("0.5")
    if tag == "otherB":
        return Fraction(2 * v + 1, 3)
    raise ValueError(tag)


class IntSub(int):
    pass


class FloatSub(float):
    pass


class StrSub(str):
    pass


class DateSub(date):
    pass


class DatetimeSub(datetime):
    pass


def vec_tags(values):
    return [tag_of(x) for x in values]


def dtype_abs(schema):
    """(kind tag, nullable) of a DataType, or None when the vector has no schema."""
    if schema is None:
        return None
    return (kind_tag(schema.kind), bool(schema.nullable))


def truth_event(values, schema, origin):
    """C03 monitor event for one vector the library produced (None if nothing to say)."""
    d = dtype_abs(schema)
    if d is None:
        return None
    tags = sorted(set(vec_tags(values)))
    if any(t.startswith("sub:") or t.startswith("unknown:") for t in tags):
        return None     # subclass / exotic element values: outside the tag universe of the spec
    return {"op": "truth", "kind": d[0], "nullable": d[1], "tags": tags, "origin": origin}


def same_value(a, b) -> bool:
    """Exact comparison used for elementwise results: equal, same type, NaN equals NaN."""
    if type(a) is not type(b):
        return False
    if isinstance(a, float) and isinstance(b, float):
        if math.isnan(a) or math.isnan(b):
            return math.isnan(a) and math.isnan(b)
        return a == b and math.copysign(1, a) == math.copysign(1, b)
    if isinstance(a, complex):
        return (same_value(a.real, b.real) and same_value(a.imag, b.imag))
    if isinstance(a, (list, tuple)):
        return len(a) == len(b) and all(same_value(x, y) for x, y in zip(a, b))
    return a == b
