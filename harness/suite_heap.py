"""SerifHeap suite: the state machine behind C01, C02, C15, C16, C17 (freshness), C08 (atomicity).

  mc(facet)     TLC on MC_Heap_<facet>_<tier>.cfg: invariants + action properties; -coverage
  devs(names)   each deviation config must be reported violated by TLC
  gen(facet)    every transition of a bounded instance emitted with its BFS path, replayed into serif
  trace()       random histories of the real library validated by Trace_Heap
"""
import json
import os
import re

import engine

NOTE_CLAUSES = ("note_unregistered", "note_cow_instead_of_refusal", "fp_memo")

# depth of the emitted (replayed) instance per facet and tier: (cfg, MaxDepth, variants)
GEN = {
    "alias":  {"quick": ("MC_Heap_alias_quick.cfg", 5, 1),  "thorough": ("MC_Heap_alias_quick.cfg", 7, 1)},
    "tables": {"quick": ("MC_Heap_tables_quick.cfg", 5, 1), "thorough": ("MC_Heap_tables_quick.cfg", 6, 2)},
    "tables2": {"quick": ("MC_Heap_tables2_gen.cfg", 4, 1), "thorough": ("MC_Heap_tables2_gen.cfg", 5, 2)},
    "tables2deep": {"quick": ("MC_Heap_tables2_gen.cfg", 5, 1), "thorough": ("MC_Heap_tables2_gen.cfg", 6, 1)},
    "fp": {"quick": ("MC_Heap_fp_quick.cfg", 7, 1), "thorough": ("MC_Heap_fp_quick.cfg", 9, 2)},
    "obsv1": {"quick": ("MC_Heap_obsv1_quick.cfg", 7, 1), "thorough": ("MC_Heap_obsv1_quick.cfg", 8, 1)},
    "obsv2": {"quick": ("MC_Heap_obsv2_quick.cfg", 6, 1), "thorough": ("MC_Heap_obsv2_quick.cfg", 7, 1)},
    "obst1": {"quick": ("MC_Heap_obst1_quick.cfg", 5, 1), "thorough": ("MC_Heap_obst1_quick.cfg", 6, 1)},
    "obst2": {"quick": ("MC_Heap_obst2_quick.cfg", 5, 1), "thorough": ("MC_Heap_obst2_quick.cfg", 6, 1)},
    "obst3": {"quick": ("MC_Heap_obst3_quick.cfg", 8, 1), "thorough": ("MC_Heap_obst3_quick.cfg", 9, 1)},
    "obst4": {"quick": ("MC_Heap_obst4_quick.cfg", 7, 1), "thorough": ("MC_Heap_obst4_quick.cfg", 9, 1)},
    # many sharers of ONE caller-supplied tuple, dropped in every order, then a write (paths of up to 8-9 calls)
    "share": {"quick": ("MC_Heap_share_quick.cfg", 7, 1), "thorough": ("MC_Heap_share_thorough.cfg", 9, 1)},
    "names":  {"quick": ("MC_Heap_names_quick.cfg", 6, 1),  "thorough": ("MC_Heap_names_quick.cfg", 7, 2)},
}
DEVS = {
    "NoUnregister": {"InvNoSpuriousRefusal"}, "VecFpNotInvalidated": {"InvFpCoherent"},
    "SetAttrShare": {"WritesLocal"}, "SetAttrNoReregister": {"InvNoSpuriousRefusal"},
    "TableFpMemo": {"InvFpCoherent"}, "RaggedAccepted": {"InvRect"}, "CmapStale": {"InvLookupCurrent"}, "DirTames": {"InvLookupCurrent", "InvCmap"},
    "ConcatShares": {"InvSharingJustified", "InvNoSpuriousRefusal"},
}


def mc(rep, tier, facets, coverage=True):
    """coverage=False: skip the -coverage run (the vacuity guard) where another property's check of the same facet already has it"""
    for f in facets:
        cfg = f"MC_Heap_{f}_{tier}.cfg"
        r = engine.run_tlc("MC_Heap", cfg, coverage=(coverage and tier == "quick" and f in ("names", "fp", "tables")), timeout=2400,
                           workers=8 if tier == "quick" else 16)
        rep.add_mc(r, f"SerifHeap facet {f}: all histories within the bound; invariants + action properties")
        never = [a for a, (d, t) in r.coverage.items() if t == 0 and a not in ("Init",)]
        if r.coverage:
            rep.extra.setdefault("actions_never_enabled", {})[f] = never
            # vacuity guard: every action the facet switches on must actually have been taken
            cfgtext = open(os.path.join(engine.SPEC, cfg)).read()
            acts = re.search(r"Acts = \{([^}]*)\}", cfgtext).group(1)
            want = {"A" + a.strip().strip('"') for a in acts.split(",") if a.strip()}
            alias = {"AReadFp": ["AReadFpV"], "APromote": ["AWrite"], "AObserve": ["AObserveV", "AObserveT"], "AShareVec": ["AShareVec"]}
            for a in want:
                names = alias.get(a, [a])
                if not any(r.coverage.get(n, (0, 0))[1] > 0 for n in names):
                    raise engine.MachineryError(f"facet {f}: action {a} is enabled in {cfg} but was never taken (vacuous model)")


def devs(rep, names):
    for d in names:
        r = engine.run_tlc("MC_Heap", f"MC_Heap_dev_{d}.cfg", expect_violation=True, timeout=600)
        rep.add_dev(d, r, DEVS[d] | {"temporal"})


def gen(rep, tier, facet, clauses, palettes=None):
    """palettes: "plain" (0, 1) and / or "collide" (-1, -2: values whose hash() collide); obs facets use both"""
    cfgfile, depth, nvar = GEN[facet][tier]
    if palettes is None:
        # alias / share: the promotion write also as int -> complex and date -> datetime (other branches of the same code)
        palettes = "plain,collide" if facet.startswith("obs") else ("plain,complex,temporal" if facet in ("alias", "share") else "plain")
    cfg = open(os.path.join(engine.SPEC, cfgfile)).read().replace("Emit = FALSE", "Emit = TRUE")
    cfg = re.sub(r"MaxDepth = \d+", f"MaxDepth = {depth}", cfg)
    cfg = "\n".join(l for l in cfg.splitlines() if not l.startswith(("INVARIANT", "PROPERTY"))) + "\nACTION_CONSTRAINT EmitT\n"
    r = engine.run_tlc("MC_Heap", cfg, timeout=2400, workers=8)
    rep.add_mc(r, f"Gen: SerifHeap facet {facet}, every transition with path length < {depth}")
    sc = engine.scratch()
    cp, op = os.path.join(sc, f"heap_{facet}.ndjson"), os.path.join(sc, f"heap_{facet}_out.json")
    with open(cp, "w") as f:
        for _, c in r.prints:
            f.write(json.dumps(c) + "\n")
    if not r.prints:
        raise engine.MachineryError("MC_Heap emitted no transitions")
    mid = r.prints[len(r.prints) // 2][1]
    rep.sample({"suite": f"heap.gen.{facet}", "path": [[a["a"], a["x"], a["y"], a["z"], a["w"], a["vs"], a["nm"], a["res"]]
                                                        for a in mid["path"]], "post": mid["post"]})
    engine.run_driver("drv_heap.py", ["replay", cp, op, str(nvar), palettes], timeout=2400)
    out = json.load(open(op))
    rep.gen_cases += out["executed"]
    for k, v in out["per_clause"].items():
        if k in NOTE_CLAUSES:
            rep.notes.append(f"heap.gen.{facet}: {v} x {k} (implementation-defined / allowed; not a violation)")
    for f in out["failures"]:
        if f["clause"] in clauses:
            case = {"facet": facet, "path": f["case"]["path"], "post": f["case"]["post"], "variant": f["variant"],
                    "palette": f.get("palette", "plain"),
                    "step": f["step"], "forms": f["forms"]}
            rep.fail(f["clause"], f"heap.gen.{facet}", case, f["observed"], f["expected"])


def trace(rep, tier, seed, clauses):
    sc = engine.scratch()
    raw = os.path.join(sc, "heap_trace.ndjson")
    nhist, maxlen = (250, 30) if tier == "quick" else (4000, 60)
    engine.run_driver("drv_heap.py", ["record", str(seed), str(nhist), str(maxlen), raw], timeout=2400)
    evs_all = engine.read_ndjson(raw)
    crashes = [e for e in evs_all if e["a"] == "CRASH"]
    evs = [e for e in evs_all if e["a"] != "CRASH"]
    for cr in crashes:
        hist = [e for e in evs if e.get("tid") == cr["tid"] and e["a"] != "EOT"]
        clause = next((c_ for c_ in ("outcome", "write_error", "contents", "rectangular", "structure", "registry", "spurious_refusal", "fp_value", "lookup", "obs_repr") if c_ in clauses), None)
        if clause:
            rep.fail(clause, "heap.trace", {"history": [[e["a"], e["x"], e["y"], e["z"], e["w"], e["vs"], e["nm"], e.get("how"), e["res"]] for e in hist],
                                            "then": cr["act"]}, "the library raised " + cr["error"], "a result or a refusal (the specification enables this call)", direction="trace")
    path = os.path.join(sc, "heap_trace_tlc.ndjson")
    engine.write_ndjson(path, evs)
    r = engine.run_tlc("Trace_Heap", "Trace_Heap.cfg", env={"TRACE_FILE": path}, workers=1, tags=("VERDICT",),
                       timeout=2400)
    if not r.prints:
        raise engine.MachineryError("Trace_Heap printed no verdict\n" + r.out[-2000:])
    v = r.prints[-1][1]
    if v["n"] != len(evs):
        raise engine.MachineryError(f"Trace_Heap consumed {v['n']} of {len(evs)} events")
    nev = sum(1 for e in evs if e["a"] != "EOT")
    rep.trace_events += nev
    rep.extra["heap_histories"] = nhist
    first = [e for e in evs if e.get("tid") == 1 and e["a"] != "EOT"]
    rep.sample({"suite": "heap.trace", "history": [[e["a"], e["x"], e["y"], e["z"], e["w"], e["vs"], e["nm"], e["res"]] for e in first[:12]]})
    for tid, i, clause in v["bad"]:
        if clause in NOTE_CLAUSES:
            rep.notes.append(f"heap.trace: history {tid} step {i}: {clause}")
            continue
        if clause == "not_enabled":
            raise engine.MachineryError(f"Trace_Heap: recorded event not enabled in the spec (driver/spec mismatch) tid={tid} i={i}")
        if clause in clauses:
            hist = [e for e in evs if e.get("tid") == tid and e["a"] != "EOT" and e["i"] <= i]
            rep.fail(clause, "heap.trace", {"history": [[e["a"], e["x"], e["y"], e["z"], e["w"], e["vs"], e["nm"], e.get("how"), e["res"]] for e in hist]},
                     hist[-1]["post"], "spec verdict: " + clause, direction="trace")
