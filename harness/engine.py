"""Shared machinery: TLC runner, output parsing, evidence, violation / known-finding protocol.

Everything a check needs that is not specific to one spec module lives here.
Exit codes of a check: 0 = property held on everything explored (known findings are
printed as KNOWN-FINDING lines), 1 = violation (VIOLATION line printed), 2 = the
machinery itself failed (TLC parse error, spec self-check failed, ...).
"""
from __future__ import annotations

import atexit
import hashlib
import json
import os
import re
import shutil
import subprocess
import sys
import tempfile
import time

VERIF = os.path.dirname(os.path.dirname(os.path.abspath(__file__)))
SPEC = os.path.join(VERIF, "spec")
REPO = os.environ.get("SERIF_REPO", "/repo")
PY = "/venv/bin/python"
TLA_JAR = "/opt/veriftools/tla/tla2tools.jar"
TLA_DEPS = "/opt/veriftools/tla/CommunityModules-deps.jar"

_SCRATCH = None


def scratch() -> str:
    """Per-invocation scratch directory, removed at exit."""
    global _SCRATCH
    if _SCRATCH is None:
        _SCRATCH = tempfile.mkdtemp(prefix="serif-verif-")
        atexit.register(shutil.rmtree, _SCRATCH, True)
    return _SCRATCH


class MachineryError(Exception):
    """The checker itself is broken (never reported as a property violation)."""


class TLCResult:
    def __init__(self):
        self.rc = None
        self.out = ""
        self.generated = 0
        self.distinct = 0
        self.depth = 0
        self.violated = None      # name of violated invariant / property
        self.error = None         # other error text
        self.prints = []          # decoded PrintT payloads by tag
        self.wall = 0.0
        self.coverage = {}        # action -> (distinct, total)
        self.cfg = None
        self.module = None
        self.timed_out = False

    @property
    def ok(self):
        return self.rc == 0 and self.violated is None and self.error is None

    def summary(self):
        return {
            "module": self.module, "cfg": self.cfg, "states_generated": self.generated,
            "distinct_states": self.distinct, "depth": self.depth, "wall_s": round(self.wall, 2),
            "violated": self.violated, "error": self.error,
            "action_coverage": {k: list(v) for k, v in self.coverage.items()},
        }


_PRINT_RE = re.compile(r'^<<"([A-Z_]+)", "(.*)">>\s*$')
_GEN_RE = re.compile(r'(\d+) states generated, (\d+) distinct states found')
_DEPTH_RE = re.compile(r'The depth of the complete state graph search is (\d+)')
_INV_RE = re.compile(r'Error: Invariant (\S+) is violated')
_PROP_RE = re.compile(r'Error: Action property (\S+) is violated|Error: Temporal properties were violated')
_ASSERT_RE = re.compile(r'The first argument of Assert evaluated to FALSE; the second argument was:')
_COV_RE = re.compile(r'^<(\w+) line \d+, col \d+ to line \d+, col \d+ of module (\w+)>: (\d+):(\d+)')


def _unescape_tla(s: str) -> str:
    # TLC prints strings with \" and \\ escapes (and \n, \t).
    out = []
    i = 0
    while i < len(s):
        c = s[i]
        if c == "\\" and i + 1 < len(s):
            n = s[i + 1]
            out.append({"n": "\n", "t": "\t", "r": "\r", "f": "\f"}.get(n, n))
            i += 2
        else:
            out.append(c)
            i += 1
    return "".join(out)


def run_tlc(module: str, cfg: str, *, constants: dict | None = None, module_text: str | None = None, workers: int = 16,
            timeout: int = 600, env: dict | None = None, simulate: str | None = None,
            depth: int | None = None, coverage: bool = False, tags=("CASE",),
            expect_violation: bool = False, extra: list | None = None,
            keep_output: bool = False) -> TLCResult:
    """Run TLC on spec/<module>.tla with config text or file name `cfg`.

    `cfg` may be a path (relative to spec/) or literal config text (contains a newline).
    PrintT lines of the form <<"TAG", "json">> with TAG in `tags` are decoded into
    result.prints as (tag, obj).
    """
    sc = scratch()
    run_id = hashlib.sha1(f"{module}{cfg}{time.time()}{os.getpid()}".encode()).hexdigest()[:10]
    meta = os.path.join(sc, "meta-" + run_id)
    if "\n" in cfg:
        cfg_path = os.path.join(sc, f"{module}-{run_id}.cfg")
        with open(cfg_path, "w") as f:
            f.write(cfg)
        cfg_name = "<inline>"
    else:
        cfg_path = os.path.join(SPEC, cfg)
        cfg_name = cfg
    spec_file = os.path.join(SPEC, module + ".tla")
    if module_text is not None:
        # a generated root module (constants too rich for a .cfg) that EXTENDS modules of spec/
        os.makedirs(os.path.join(sc, "gen-" + run_id), exist_ok=True)
        spec_file = os.path.join(sc, "gen-" + run_id, module + ".tla")
        with open(spec_file, "w") as f:
            f.write(module_text)
    cmd = ["java", "-XX:+UseParallelGC", "-XX:ParallelGCThreads=4", "-Xmx6g", "-Xss16m", f"-DTLA-Library={SPEC}", "-cp", f"{TLA_JAR}:{TLA_DEPS}", "tlc2.TLC",
           "-workers", str(workers), "-metadir", meta, "-noGenerateSpecTE",
           "-config", cfg_path]
    if coverage:
        cmd += ["-coverage", "1"]
    if simulate:
        cmd += ["-simulate", simulate]
    if depth is not None:
        cmd += ["-depth", str(depth)]
    if extra:
        cmd += extra
    cmd += [spec_file]
    e = dict(os.environ)
    if env:
        e.update({k: str(v) for k, v in env.items()})
    res = TLCResult()
    res.module, res.cfg = module, cfg_name
    t0 = time.time()
    try:
        p = subprocess.run(cmd, cwd=SPEC, env=e, stdout=subprocess.PIPE, stderr=subprocess.STDOUT,
                           timeout=timeout, text=True, errors="replace")
        res.rc = p.returncode
        out = p.stdout
    except subprocess.TimeoutExpired as ex:
        res.timed_out = True
        res.rc = -9
        out = (ex.stdout or b"")
        if isinstance(out, bytes):
            out = out.decode(errors="replace")
        res.error = f"TLC timed out after {timeout}s"
    res.wall = time.time() - t0
    shutil.rmtree(meta, ignore_errors=True)
    lines_all = out.splitlines()
    for li, line in enumerate(lines_all):
        if _ASSERT_RE.search(line) and res.violated is None:
            nxt = lines_all[li + 1].strip().strip('"') if li + 1 < len(lines_all) else "Assert"
            res.violated = nxt or "Assert"
    for line in out.splitlines():
        m = _PRINT_RE.match(line)
        if m and m.group(1) in tags:
            try:
                res.prints.append((m.group(1), json.loads(_unescape_tla(m.group(2)))))
            except Exception as ex:  # pragma: no cover
                raise MachineryError(f"cannot decode TLC print line: {line[:200]} ({ex})")
            continue
        m = _GEN_RE.search(line)
        if m:
            res.generated, res.distinct = int(m.group(1)), int(m.group(2))
        m = _DEPTH_RE.search(line)
        if m:
            res.depth = int(m.group(1))
        m = _INV_RE.search(line)
        if m and res.violated is None:
            res.violated = m.group(1)
        m = _PROP_RE.search(line)
        if m and res.violated is None:
            res.violated = m.group(1) or "temporal"
        m = _COV_RE.match(line)
        if m:
            name = m.group(1)
            d, t = int(m.group(3)), int(m.group(4))
            od, ot = res.coverage.get(name, (0, 0))
            res.coverage[name] = (od + d, ot + t)
    if res.violated is None and res.error is None and res.rc != 0:
        # some other error: parse error, evaluation error, assertion
        errs = [l for l in out.splitlines() if l.startswith("Error:") or "Exception" in l or "***" in l]
        res.error = "; ".join(errs[:5]) or f"TLC exit code {res.rc}"
    # keep non-print output for diagnosis
    res.out = "\n".join(l for l in out.splitlines() if not _PRINT_RE.match(l)) if not keep_output else out
    if not expect_violation and not res.ok:
        if res.violated is None:
            raise MachineryError(f"TLC failed on {module} [{cfg_name}]: {res.error}\n{res.out[-3000:]}")
    return res


def sany(module: str) -> None:
    p = subprocess.run(["java", "-cp", f"{TLA_JAR}:{TLA_DEPS}", "tla2sany.SANY", module + ".tla"],
                       cwd=SPEC, stdout=subprocess.PIPE, stderr=subprocess.STDOUT, text=True)
    if p.returncode != 0 or "Semantic errors" in p.stdout or "***Parse Error***" in p.stdout:
        raise MachineryError(f"SANY rejects {module}: {p.stdout[-2000:]}")


# --------------------------------------------------------------------------------------
# Running python drivers against the repository tree (fresh subprocess, explicit hash seed)
# --------------------------------------------------------------------------------------

def run_driver(script: str, args: list[str], *, hashseed: int = 0, timeout: int = 900,
               stdin_text: str | None = None, env: dict | None = None) -> subprocess.CompletedProcess:
    e = dict(os.environ)
    e["PYTHONPATH"] = os.path.join(REPO, "src") + os.pathsep + os.path.join(VERIF, "harness")
    e["PYTHONHASHSEED"] = str(hashseed)
    e["SERIF_VERIF"] = "1"
    e.setdefault("PYTHONWARNINGS", "ignore")
    if env:
        e.update({k: str(v) for k, v in env.items()})
    p = subprocess.run([PY, "-W", "ignore", os.path.join(VERIF, "harness", script)] + args,
                       cwd=VERIF, env=e, input=stdin_text, stdout=subprocess.PIPE,
                       stderr=subprocess.PIPE, text=True, timeout=timeout)
    if p.returncode not in (0,):
        # an exception that ORIGINATES in the library (innermost frame under <repo>/src/serif) and escapes a call the harness
        # treats as total is an observation about the library, not a failure of the machinery: on the unchanged tree every
        # driver runs to completion
        frames = [ln for ln in p.stderr.splitlines() if ln.lstrip().startswith('File "')]
        if frames and os.path.join(REPO, "src", "serif") in frames[-1] and "Traceback (most recent call last)" in p.stderr:
            raise LibraryRaised(script, args, p.stderr[-3000:])
        raise MachineryError(f"driver {script} {args} failed rc={p.returncode}:\n{p.stderr[-4000:]}")
    return p


class LibraryRaised(Exception):
    def __init__(self, script, args, tail):
        super().__init__(f"library exception escaped {script}")
        self.script, self.args_, self.tail = script, args, tail


# --------------------------------------------------------------------------------------
# Findings, violations, evidence
# --------------------------------------------------------------------------------------

def load_known_findings():
    path = os.path.join(VERIF, "known_findings.json")
    if not os.path.exists(path):
        return []
    with open(path) as f:
        return json.load(f)


class Report:
    """Collects what one check run did; writes evidence; prints the protocol lines."""

    def __init__(self, prop: str, tier: str, seed: int):
        self.prop, self.tier, self.seed = prop, tier, seed
        self.t0 = time.time()
        self.mc_runs = []
        self.dev_runs = []
        self.states = 0
        self.transitions = 0
        self.gen_cases = 0
        self.trace_events = 0
        self.samples = []
        self.failures = []       # dicts: clause, suite, case, observed, expected, finding (id or None)
        self.notes = []
        self.skipped = {}
        self.extra = {}
        self.assumptions = []
        self.distinct_nontrivial = 0

    # -- accumulation -------------------------------------------------------------
    def add_mc(self, r: TLCResult, label: str = ""):
        s = r.summary()
        s["label"] = label
        self.mc_runs.append(s)
        self.states += r.distinct
        self.transitions += r.generated

    def add_dev(self, name: str, r: TLCResult, expected_inv=None):
        """A deviation config MUST be reported violated by TLC (sensitivity of the spec)."""
        ok = r.violated is not None and (expected_inv is None or r.violated in expected_inv)
        self.dev_runs.append({"dev": name, "violated": r.violated, "wall_s": round(r.wall, 2), "ok": ok})
        if not ok:
            raise MachineryError(
                f"deviation config {name} was NOT detected by TLC (violated={r.violated}, error={r.error}); "
                f"the spec would be blind to this bug class\n{r.out[-1500:]}")

    def sample(self, obj, limit=4):
        if len(self.samples) < limit:
            self.samples.append(obj)

    def skip(self, reason, n=1):
        self.skipped[reason] = self.skipped.get(reason, 0) + n

    def fail(self, clause, suite, case, observed, expected, finding=None, direction="gen"):
        self.failures.append({"clause": clause, "suite": suite, "case": case, "observed": observed,
                              "expected": expected, "finding": finding, "direction": direction})

    # -- finish ---------------------------------------------------------------------
    def finish(self) -> int:
        known = {k["id"]: k for k in load_known_findings() if k.get("status") == "known"
                 and k.get("property") == self.prop}
        viol, hits = [], {}
        for f in self.failures:
            fid = f.get("finding")
            if fid and fid in known:
                hits.setdefault(fid, []).append(f)
            else:
                viol.append(f)
        wall = time.time() - self.t0
        ev = {
            "property_id": self.prop, "tier": self.tier, "seed": self.seed, "level": "model_checking",
            "coverage": {
                "states": max(self.states, 0), "transitions": max(self.transitions, 0),
                "traces_validated_against_impl": self.gen_cases + self.trace_events,
                "gen_cases_replayed_into_impl": self.gen_cases,
                "impl_trace_events_validated_by_tlc": self.trace_events,
                "evaluations": self.gen_cases + self.trace_events,
                "distinct_nontrivial": self.distinct_nontrivial or (self.gen_cases + self.trace_events),
                "rule": self.extra.pop("rule", "cases are states/transitions of the bounded TLA+ model "
                                                 "(distinct by TLC fingerprint) plus seeded random executions "
                                                 "of the implementation validated by TLC"),
                "samples": self.samples or ["(no sample recorded)"],
                "mc_runs": self.mc_runs, "dev_runs": self.dev_runs, "skipped": self.skipped,
                "known_findings_hit": {k: len(v) for k, v in hits.items()},
                **self.extra,
            },
            "assumptions": self.assumptions,
            "wall_s": round(wall, 2),
            "violations": len(viol),
            "notes": self.notes,
        }
        # VERIF_OUT (optional): write evidence / violation files elsewhere (used by the seeded-change regression, which
        # must not overwrite the evidence of the real tree)
        OUT = os.environ.get("VERIF_OUT") or VERIF
        os.makedirs(os.path.join(OUT, "evidence"), exist_ok=True)
        with open(os.path.join(OUT, "evidence", f"{self.prop}.json"), "w") as f:
            json.dump(ev, f, indent=1, default=str)
        for fid, fs in hits.items():
            print(f"KNOWN-FINDING: property={self.prop} {known[fid]['what']} [{fid}; {len(fs)} case(s) this run]")
        if viol:
            # one replay file per distinct (clause, suite); first case of each
            seen = set()
            os.makedirs(os.path.join(OUT, "violations"), exist_ok=True)
            for f in viol:
                key = (f["clause"], f["suite"])
                if key in seen:
                    continue
                seen.add(key)
                blob = json.dumps(f, sort_keys=True, default=str)
                h = hashlib.sha1(blob.encode()).hexdigest()[:12]
                path = os.path.join(OUT, "violations", f"{self.prop}-{h}.json")
                with open(path, "w") as fh:
                    json.dump({"property": self.prop, "tier": self.tier, "seed": self.seed, **f,
                               "same_class_count": sum(1 for g in viol if (g["clause"], g["suite"]) == key)},
                              fh, indent=1, default=str)
                print(f"VIOLATION property={self.prop} replay={path}")
                print(f"  clause={f['clause']} suite={f['suite']} case={json.dumps(f['case'], default=str)[:300]}")
                print(f"  observed={json.dumps(f['observed'], default=str)[:300]}")
                print(f"  expected={json.dumps(f['expected'], default=str)[:300]}")
            return 1
        print(f"OK property={self.prop} tier={self.tier} states={self.states} transitions={self.transitions} "
              f"gen={self.gen_cases} trace={self.trace_events} wall={wall:.1f}s")
        return 0


def _tlc_clean(x):
    """JSON null is not readable by TLC's Json module: drop None-valued keys."""
    if isinstance(x, dict):
        return {k: _tlc_clean(v) for k, v in x.items() if v is not None}
    if isinstance(x, (list, tuple)):
        return [_tlc_clean(v) for v in x]
    return x


def write_ndjson(path, records, keys=None):
    """Write events for a Trace_* spec; `keys` restricts each record to spec-relevant fields."""
    with open(path, "w") as f:
        for r in records:
            if keys is not None:
                r = {k: r[k] for k in keys if k in r}
            f.write(json.dumps(_tlc_clean(r), separators=(",", ":")) + "\n")


def read_ndjson(path):
    with open(path) as f:
        return [json.loads(l) for l in f if l.strip()]


def tier_from_env(default="quick"):
    return os.environ.get("VERIF_TIER", default)


def seed_from_env():
    try:
        return int(os.environ.get("VERIF_SEED", "0"))
    except ValueError:
        return 0
