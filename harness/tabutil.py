"""Helpers shared by the drivers (they import serif; run with PYTHONPATH=<repo>/src)."""
import warnings

warnings.simplefilter("ignore")
from serif import Vector, Table            # noqa: E402
import absval as A                         # noqa: E402


def vec_view(v):
    """Public-API view of a vector: contents, name, dtype."""
    return {"vals": list(v), "name": v.name, "dtype": A.dtype_abs(v.schema())}


def table_view(t):
    cols = list(t.cols())
    return {"names": t.column_names(), "cols": [vec_view(c) for c in cols], "len": len(t)}


def table_rows(t):
    """Rows read column-wise (does not rely on Row / iteration)."""
    cols = [list(c) for c in t.cols()]
    n = len(cols[0]) if cols else 0
    return [[c[i] for c in cols] for i in range(n)]


def views_equal(a, b):
    return _eq(a, b)


def _eq(a, b):
    if isinstance(a, dict) and isinstance(b, dict):
        return a.keys() == b.keys() and all(_eq(a[k], b[k]) for k in a)
    if isinstance(a, (list, tuple)) and isinstance(b, (list, tuple)):
        return len(a) == len(b) and all(_eq(x, y) for x, y in zip(a, b))
    return A.same_value(a, b)


class Monitor:
    """Collects C03 'truth' and C04 'rule' events for every vector a driver obtains (deduplicated)."""

    def __init__(self):
        self.truth = {}
        self.rule = {}
        self.wb = []

    def see(self, v, origin, rule=False):
        if isinstance(v, Table):
            for i, c in enumerate(v.cols()):
                self.see(c, origin, rule)
            return
        try:
            vals = list(v)
            ev = A.truth_event(vals, v.schema(), origin)
        except Exception:
            return
        if ev is None:
            return
        key = (ev["kind"], ev["nullable"], tuple(ev["tags"]))
        if key not in self.truth:
            ev["example"] = repr(vals[:6])
            self.truth[key] = ev
            self.writeback(v, vals, origin)
        if rule and vals:
            if key not in self.rule:
                r = dict(ev)
                r["op"] = "rule"
                self.rule[key] = r

    def writeback(self, v, vals, origin):
        """C03, equivalent form: writing any element back into its own position is accepted
        and never changes the dtype (probed on a copy, first 8 positions)."""
        try:
            c = v.copy()
            before = A.dtype_abs(c.schema())
            for i in range(min(len(vals), 8)):
                c[i] = vals[i]
            after = A.dtype_abs(c.schema())
            if before != after:
                self.wb.append({"origin": origin, "values": repr(vals[:8]), "observed": [before, after], "what": "dtype changed"})
            elif not views_equal(list(c), vals):
                self.wb.append({"origin": origin, "values": repr(vals[:8]), "observed": repr(list(c)[:8]), "what": "contents changed"})
        except Exception as ex:      # noqa: BLE001
            self.wb.append({"origin": origin, "values": repr(vals[:8]), "dtype": str(v.schema()),
                            "observed": type(ex).__name__ + ": " + str(ex)[:80], "what": "write-back rejected"})

    def dump(self):
        return {"truth": list(self.truth.values()), "rule": list(self.rule.values()), "writeback": self.wb}
