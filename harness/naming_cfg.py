"""Builds the constants of the naming specs (Reserved from the library's public API, Pool)."""
import subprocess
import engine

POOL = ["a", "a b", "a  b", "a_b", "1a", "_", "é", "a__1", "col0_", "col1_", "sum", "cols", "t", "class",
        "a_", "sum_", "b", "x__y__3", "a__b__1", "v___2", "a__b", "col1_x", "col0_y"]


def chars(s):
    return "<<" + ", ".join('"%s"' % (c if c not in '"\\' else "\\" + c) for c in s) + ">>"


def reserved():
    """public callables / properties of Vector and Table, lower-cased (what naming.py reserves)"""
    p = engine.run_driver("drv_names.py", ["reserved"])
    return sorted(set(p.stdout.split()))


def build(suite, pool=POOL, maxw=3, res=None):
    """(module name, module text, cfg text) of a generated root module extending Gen_Naming"""
    res = reserved() if res is None else res
    ascii_res = [r for r in res if all(c.isalnum() or c == "_" for c in r)]
    name = "GenNamingRun"
    text = f"""---- MODULE {name} ----
EXTENDS Gen_Naming
ReservedDef == {{{", ".join(chars(r) for r in ascii_res)}}}
PoolDef == {{{", ".join(chars(p.lower()) for p in pool)}}}
====
"""
    cfg = f"""INIT Init
NEXT Next
CONSTANTS
  Reserved <- ReservedDef
  Pool <- PoolDef
  MaxW = {maxw}
  Suite = "{suite}"
INVARIANT Emit
INVARIANT Laws
INVARIANT AggDistinct
CHECK_DEADLOCK FALSE
"""
    return name, text, cfg
