"""./check <ID> [--tier quick|thorough] [--replay FILE]"""
import argparse
import json
import os
import sys
import traceback

sys.path.insert(0, os.path.dirname(os.path.abspath(__file__)))
import engine            # noqa: E402


def main():
    ap = argparse.ArgumentParser()
    ap.add_argument("prop")
    ap.add_argument("--tier", default=engine.tier_from_env())
    ap.add_argument("--replay", default=None)
    a = ap.parse_args()
    seed = engine.seed_from_env()
    import props
    if a.prop not in props.CHECKS:
        print(f"unknown property {a.prop}", file=sys.stderr)
        return 2
    rep = engine.Report(a.prop, a.tier, seed)
    try:
        if a.replay:
            return props.replay(a.prop, a.replay, rep)
        props.CHECKS[a.prop](rep, a.tier, seed)
        return rep.finish()
    except engine.LibraryRaised as ex:
        lines = [ln for ln in ex.tail.strip().splitlines() if ln.strip()]
        rep.fail("library_raised", "driver:" + ex.script, {"driver": ex.script, "arguments": [str(x)[-60:] for x in ex.args_], "traceback (tail)": lines[-8:]},
                 lines[-1] if lines else "exception", "the call completes (it does on the unchanged tree): the exception originates inside the library")
        return rep.finish()
    except engine.MachineryError as ex:
        print(f"MACHINERY-FAILURE property={a.prop}: {ex}", file=sys.stderr)
        return 2
    except Exception:
        traceback.print_exc()
        print(f"MACHINERY-FAILURE property={a.prop}: unexpected exception", file=sys.stderr)
        return 2


if __name__ == "__main__":
    sys.exit(main())
