"""SerifRepr suite (C20)."""
import json
import os

import engine

C20_CL = ("repr_data", "repr_raises", "footer", "footer_dtype", "preview_rows", "preview_cols", "header_names", "operands_unchanged")


def gen(rep, tier, clauses=C20_CL):
    limits = "{0, 1, 2, 3, 4, 5, 12, 13}" if tier == "quick" else "{0, 1, 2, 3, 4, 5, 6, 7, 11, 12, 13, 20, 40}"
    cfg = f"""INIT Init
NEXT Next
CONSTANTS
  Limits = {limits}
  MaxCols = {12 if tier == "quick" else 14}
INVARIANT Emit
INVARIANT Laws
CHECK_DEADLOCK FALSE
"""
    r = engine.run_tlc("Gen_Repr", cfg, timeout=1200)
    rep.add_mc(r, "Gen_Repr: layout laws for every (n, limit, width) + cases")
    cases = [dict(c, _n=i) for i, (_, c) in enumerate(r.prints)]
    sc = engine.scratch()
    cp, op = os.path.join(sc, "repr_cases.json"), os.path.join(sc, "repr_out.json")
    json.dump(cases, open(cp, "w"))
    rep.sample({"suite": "repr.layout", "case": cases[len(cases) // 2]})
    engine.run_driver("drv_repr.py", ["replay", cp, op], timeout=1800)
    _collect(rep, json.load(open(op)), "repr.layout", clauses)


STATE_CONSTS = """CONSTANTS
  Limits = {limits}
  Default = 12
  Vecs = {{"v10", "v13"}}
  Tabs = {{"t13", "t5"}}
  Rows <- RowsDef
  PeekLimit = 200
  Deviation = "{dev}"
  Depth = {depth}
"""
STATE_PROPS = """INVARIANT TypeOK
INVARIANT GlobalIsAsked
INVARIANT TableIsAsked
INVARIANT ShownIsLayout
PROPERTY PrintingChangesNothing
PROPERTY OverridesAreLocal
CHECK_DEADLOCK FALSE
"""


def state(rep, tier, clauses=C20_CL):
    """SerifReprState: the preview limit as state (global setting, per-table override, summaries).  TLC checks the
    design (which limit is in force after every history; printing changes no setting; three deviations must be
    reported), then every history of `depth` steps is replayed into the library and every printing compared."""
    limits = "{2, 5, 12, 20}"
    r = engine.run_tlc("MC_ReprState", "SPECIFICATION MCSpec\n" + STATE_CONSTS.format(limits=limits, dev="none", depth=0) + STATE_PROPS, timeout=600)
    rep.add_mc(r, "MC_ReprState: limit in force = limit asked for, printing changes no setting (all settings reachable)")
    for dev, inv in (("ResetKeepsCurrent", {"GlobalIsAsked", "ShownIsLayout"}), ("PeekLeaks", {"GlobalIsAsked", "PrintingChangesNothing", "ShownIsLayout"}),
                     ("OverrideSticks", {"TableIsAsked", "ShownIsLayout"})):
        d = engine.run_tlc("MC_ReprState", "SPECIFICATION MCSpec\n" + STATE_CONSTS.format(limits=limits, dev=dev, depth=0) + STATE_PROPS,
                           timeout=600, expect_violation=True)
        rep.add_dev("ReprState." + dev, d, inv)
    depth = 3 if tier == "quick" else 4
    g = engine.run_tlc("MC_ReprState", "SPECIFICATION GSpec\n" + STATE_CONSTS.format(limits=limits, dev="none", depth=depth) +
                       "INVARIANT Emit\nINVARIANT ShownIsLayout\nCHECK_DEADLOCK FALSE\n", timeout=1800)
    rep.add_mc(g, f"MC_ReprState (Gen): every history of {depth} settings / printings")
    cases = [c for _, c in g.prints]
    sc = engine.scratch()
    cp, op = os.path.join(sc, "repr_state_cases.json"), os.path.join(sc, "repr_state_out.json")
    json.dump(cases, open(cp, "w"))
    if cases:
        rep.sample({"suite": "repr.state", "case": cases[len(cases) // 2]})
    engine.run_driver("drv_repr.py", ["state", cp, op], timeout=3600)
    _collect(rep, json.load(open(op)), "repr.state", clauses)


def values(rep, clauses=C20_CL):
    sc = engine.scratch()
    op = os.path.join(sc, "repr_values_out.json")
    engine.run_driver("drv_repr.py", ["values", op], timeout=1800)
    _collect(rep, json.load(open(op)), "repr.values", clauses)


def _collect(rep, out, suite, clauses):
    rep.gen_cases += out["executed"]
    for f in out["failures"]:
        if f["clause"] in clauses:
            rep.fail(f["clause"], suite, {k: v for k, v in f.items() if k not in ("clause", "observed", "expected")},
                     f["observed"], f["expected"])
