"""SerifRepr suite (C20)."""
import json
import os

import engine

C20_CL = ("repr_data", "repr_raises", "footer", "footer_dtype", "preview_rows", "preview_cols", "header_names", "operands_unchanged")


def gen(rep, tier, clauses=C20_CL):
    limits = "{0, 1, 2, 3, 4, 5, 12, 13}" if tier == "quick" else "{0, 1, 2, 3, 4, 5, 6, 7, 11, 12, 13, 20, 40}"
    cfg = f"""INIT Init
NEXT Next
CONSTANTS
  Limits = {limits}
  MaxCols = {12 if tier == "quick" else 14}
INVARIANT Emit
INVARIANT Laws
CHECK_DEADLOCK FALSE
"""
    r = engine.run_tlc("Gen_Repr", cfg, timeout=1200)
    rep.add_mc(r, "Gen_Repr: layout laws for every (n, limit, width) + cases")
    cases = [dict(c, _n=i) for i, (_, c) in enumerate(r.prints)]
    sc = engine.scratch()
    cp, op = os.path.join(sc, "repr_cases.json"), os.path.join(sc, "repr_out.json")
    json.dump(cases, open(cp, "w"))
    rep.sample({"suite": "repr.layout", "case": cases[len(cases) // 2]})
    engine.run_driver("drv_repr.py", ["replay", cp, op], timeout=1800)
    _collect(rep, json.load(open(op)), "repr.layout", clauses)


def values(rep, clauses=C20_CL):
    sc = engine.scratch()
    op = os.path.join(sc, "repr_values_out.json")
    engine.run_driver("drv_repr.py", ["values", op], timeout=1800)
    _collect(rep, json.load(open(op)), "repr.values", clauses)


def _collect(rep, out, suite, clauses):
    rep.gen_cases += out["executed"]
    for f in out["failures"]:
        if f["clause"] in clauses:
            rep.fail(f["clause"], suite, {k: v for k, v in f.items() if k not in ("clause", "observed", "expected")},
                     f["observed"], f["expected"])
