"""pytest plugin (no change to the repository): records the joins, sorts, aggregations and
windows that the repository's OWN tests execute, plus the dtype of every vector they obtain,
as events for the Trace_* specifications.  Enabled by  -p recorder  with
SERIF_VERIF=1 and SERIF_VERIF_OUT=<ndjson path>; nested library calls are not recorded.

Arbitrary concrete values are abstracted by Python equality (join / group keys, cells) or by
rank (sort keys); an event whose values cannot be abstracted (unhashable, unorderable) is
written with a "skipped" reason and never guessed.
"""
import json
import os
from fractions import Fraction

OUT = os.environ.get("SERIF_VERIF_OUT")
ENABLED = os.environ.get("SERIF_VERIF") == "1" and OUT
_depth = 0
_events = []
_truth = {}


def _abs_equal(values_lists):
    """ints by first appearance of each ==-class; None -> -1.  Raises TypeError if unhashable."""
    ids = {}
    out = []
    for vals in values_lists:
        row = []
        for v in vals:
            if v is None:
                row.append(-1)
            else:
                if v not in ids:
                    ids[v] = len(ids)
                row.append(ids[v])
        out.append(row)
    return out, ids


def _rat(x, square=False):
    if x is None:
        return [0, 0]
    if isinstance(x, bool):
        return [int(x), 1]
    if isinstance(x, int):
        return [x * x, 1] if square else [x, 1]
    if isinstance(x, float):
        y = x * x if square else x
        fr = Fraction(y).limit_denominator(200000)
        if abs(float(fr) - y) > 1e-9 * max(1.0, abs(y)):
            return None
        return [fr.numerator, fr.denominator]
    return None


def _rows(t):
    cols = [list(c) for c in t.cols()]
    n = len(cols[0]) if cols else 0
    return [[c[i] for c in cols] for i in range(n)]


def _emit(ev):
    _events.append(ev)


def _install():
    import serif
    from serif import Table, Vector
    from serif.errors import SerifValueError
    import absval as A

    def guarded(fn):
        def wrapper(*a, **k):
            global _depth
            _depth += 1
            try:
                return fn(*a, **k)
            finally:
                _depth -= 1
        return wrapper

    # ------------------------------------------------------------------ joins
    def wrap_join(name, kind):
        orig = getattr(Table, name)

        def method(self, other, left_on, right_on, expect=("many_to_many" if kind == "full" else "many_to_one")):
            global _depth
            if _depth:
                return orig(self, other, left_on, right_on, expect)
            ev = {"op": "join", "kind": kind, "expect": expect if isinstance(expect, str) else repr(expect)}
            pre = None
            try:
                lon = [left_on] if isinstance(left_on, (str, Vector)) else list(left_on)
                ron = [right_on] if isinstance(right_on, (str, Vector)) else list(right_on)
                lk = [list(self._resolve_column(s)) for s in lon]
                rk = [list(other._resolve_column(s)) for s in ron]
                lrows, rrows = _rows(self), _rows(other)
                if len(lk) != len(rk) or any(len(c) != len(lrows) for c in lk) or any(len(c) != len(rrows) for c in rk):
                    raise ValueError("key shape")
                pre = (lk, rk, lrows, rrows)
            except Exception as ex:      # noqa: BLE001
                ev["skipped"] = "keys not resolvable: " + type(ex).__name__
            _depth += 1
            try:
                res = orig(self, other, left_on, right_on, expect)
                err = None
            except Exception as ex:      # noqa: BLE001
                res, err = None, ex
            finally:
                _depth -= 1
            if pre is not None:
                try:
                    lk, rk, lrows, rrows = pre
                    n_l, n_r = len(lrows), len(rrows)
                    lkt = [[lk[c][i] for c in range(len(lk))] for i in range(n_l)]
                    rkt = [[rk[c][j] for c in range(len(rk))] for j in range(n_r)]
                    outrows = _rows(res) if res is not None else []
                    (a_lk, a_rk, a_l, a_r, a_o), _ = _abs_equal_many([lkt, rkt, lrows, rrows, outrows])
                    ev.update(lk=a_lk, rk=a_rk, lrows=a_l, rrows=a_r, lw=len(self.cols()), rw=len(other.cols()),
                              res="ok" if err is None else "err", errclass=type(err).__name__ if err else "", rows=a_o)
                    if err is not None and not isinstance(err, SerifValueError):
                        ev["skipped"] = "precondition / other error: " + type(err).__name__
                except TypeError:
                    ev["skipped"] = "unhashable values"
            _emit(ev)
            if err is not None:
                raise err
            return res
        setattr(Table, name, method)

    def _abs_equal_many(groups):
        ids = {}
        out = []
        for g in groups:
            rows = []
            for vals in g:
                row = []
                for v in vals:
                    if v is None:
                        row.append(-1)
                    else:
                        if v not in ids:
                            ids[v] = len(ids)
                        row.append(ids[v])
                rows.append(row)
            out.append(rows)
        return out, ids

    wrap_join("inner_join", "inner")
    wrap_join("join", "left")
    wrap_join("full_join", "full")

    # ------------------------------------------------------------------ sort
    orig_sort = Table.sort_by

    def sort_by(self, by, reverse=False, na_last=True):
        global _depth
        if _depth:
            return orig_sort(self, by, reverse=reverse, na_last=na_last)
        ev = {"op": "tsort_rows"}
        pre = None
        try:
            keys = [by] if isinstance(by, (str, Vector)) else list(by)
            kcols = [list(self._resolve_column(s)) for s in keys]
            rev = [bool(reverse)] * len(keys) if isinstance(reverse, bool) else [bool(x) for x in reverse]
            n = len(self)
            if len(rev) != len(keys) or any(len(c) != n for c in kcols) or not keys:
                raise ValueError("shape")
            ranks = []
            for c in kcols:
                uniq = sorted(set(x for x in c if x is not None))
                rk = {x: i for i, x in enumerate(uniq)}
                ranks.append([-1 if x is None else rk[x] for x in c])
            pre = ([[ranks[k][i] for k in range(len(keys))] for i in range(n)], rev, _rows(self))
        except Exception as ex:      # noqa: BLE001
            ev["skipped"] = "keys not abstractable: " + type(ex).__name__
        _depth += 1
        try:
            res = orig_sort(self, by, reverse=reverse, na_last=na_last)
        finally:
            _depth -= 1
        if pre is not None:
            try:
                (a_in, a_out), _ = _abs_equal_many([pre[2], _rows(res)])
                ev.update(K=pre[0], rev=pre[1], naLast=bool(na_last), inrows=a_in, outrows=a_out)
            except TypeError:
                ev["skipped"] = "unhashable values"
        _emit(ev)
        return res
    Table.sort_by = sort_by

    # ------------------------------------------------------------------ aggregate / window
    def wrap_group(name):
        orig = getattr(Table, name)
        funs = ["sum", "mean", "min", "max", "stdev", "count"]

        def method(self, over, **kw):
            global _depth
            if _depth:
                return orig(self, over, **kw)
            _depth += 1
            try:
                res = orig(self, over, **kw)
            finally:
                _depth -= 1
            try:
                keys = [over] if isinstance(over, (str, Vector)) else list(over)
                kcols = [list(self._resolve_column(s)) for s in keys]
                n = len(self)
                (K,), _ = _abs_equal_many([[[kcols[k][i] for k in range(len(keys))] for i in range(n)]])
                nk = len(keys)
                outcols = [list(c) for c in res.cols()]
                pos = nk
                for f in ["sum", "mean", "min", "max", "count", "stdev"]:
                    arg = kw.get(f + "_over")
                    if arg is None:
                        continue
                    cols = [arg] if isinstance(arg, (str, Vector)) else list(arg)
                    for spec in cols:
                        V = list(self._resolve_column(spec))
                        col = outcols[pos]
                        pos += 1
                        ev = {"op": name, "K": K, "funs": [{"stdev": "var"}.get(f, f)], "calls": [], "keys": [], "wkeys": []}
                        if not all(v is None or (isinstance(v, int) and not isinstance(v, bool) and abs(v) < 30000) for v in V):
                            ev["skipped"] = "aggregated values are not small ints"
                            _emit(ev)
                            continue
                        rats = [_rat(x, f == "stdev") for x in col]
                        if any(r is None for r in rats):
                            ev["skipped"] = "result not a small rational"
                            _emit(ev)
                            continue
                        ev["V"] = [-1 if v is None else v for v in V]
                        ev["out"] = [rats]
                        keyrows = [[outcols[k][g] for k in range(nk)] for g in range(len(col))]
                        # key ids must use the same numbering as K: rebuild jointly
                        (K2, KR), _ = _abs_equal_many([[[kcols[k][i] for k in range(nk)] for i in range(n)], keyrows])
                        ev["K"] = K2
                        ev["keys" if name == "aggregate" else "wkeys"] = KR
                        ev["nocalls"] = True
                        _emit(ev)
            except Exception as ex:      # noqa: BLE001
                _emit({"op": name, "skipped": "not abstractable: " + type(ex).__name__})
            return res
        setattr(Table, name, method)

    wrap_group("aggregate")
    wrap_group("window")

    # ------------------------------------------------------------------ vector indexing / item assignment
    NONEI = 99

    def enc_key(key, n):
        """the key forms Trace_Vector knows; None when the key is something else (never guessed)"""
        if isinstance(key, bool):
            return None
        if isinstance(key, int):
            return ["int", key] if abs(key) < 10000 else None
        if isinstance(key, slice):
            parts = []
            for c in (key.start, key.stop, key.step):
                if c is None:
                    parts.append(NONEI)
                elif isinstance(c, int) and not isinstance(c, bool) and abs(c) < 90:
                    parts.append(c)
                else:
                    return None
            return ["slice"] + parts
        if type(key) in (list, tuple) or (isinstance(key, Vector) and not isinstance(key, Table)):
            items = list(key)
            if items and all(isinstance(x, bool) for x in items):
                return ["mask", items]
            if items and all(isinstance(x, int) and not isinstance(x, bool) and abs(x) < 10000 for x in items):
                return ["list", items]
        return None

    def plain_vector(v):
        return isinstance(v, Vector) and not isinstance(v, Table) and type(v).__name__ != "Row"

    def temporal(vals):
        import datetime as _dt
        return any(isinstance(x, _dt.date) for x in vals)

    orig_get = Vector.__getitem__

    def getitem(self, key):
        global _depth
        if _depth or not plain_vector(self):
            return orig_get(self, key)
        k = None
        try:
            before = list(self._underlying)
            k = enc_key(key, len(before))
        except Exception:      # noqa: BLE001
            k = None
        _depth += 1
        try:
            res, err = orig_get(self, key), None
        except Exception as ex:      # noqa: BLE001
            res, err = None, ex
        finally:
            _depth -= 1
        if k is not None and len(before) <= 60:
            try:
                if err is None:
                    out = [res] if k[0] == "int" else list(res)
                else:
                    out = []
                (a_b, a_o), _ = _abs_equal_many([[before], [out]])
                _emit({"op": "rgetitem", "n": len(before), "key": k, "vals": a_b[0], "res": a_o[0], "ok": err is None,
                       "errclass": type(err).__name__ if err else ""})
            except TypeError:
                _emit({"op": "rgetitem", "skipped": "unhashable values"})
        if err is not None:
            raise err
        return res
    Vector.__getitem__ = getitem

    orig_set = Vector.__setitem__

    def setitem(self, key, value):
        global _depth
        if _depth or not plain_vector(self):
            return orig_set(self, key, value)
        k = val = None
        try:
            before = list(self._underlying)
            k = enc_key(key, len(before))
            if type(value) in (list, tuple) or plain_vector(value):
                val = ["seq", list(value)]
            elif value is None or type(value) in (int, float, bool, str):
                val = ["scalar", value]
            if k is not None and val is not None and k[0] == "int" and val[0] == "seq":
                val = None
        except Exception:      # noqa: BLE001
            k = None
        _depth += 1
        try:
            orig_set(self, key, value)
            err = None
        except Exception as ex:      # noqa: BLE001
            err = ex
        finally:
            _depth -= 1
        if k is not None and val is not None and len(before) <= 60:
            try:
                after = list(self._underlying)
                if temporal(before) or temporal(after):
                    _emit({"op": "rsetitem", "skipped": "temporal values (promotion converts elements)"})
                else:
                    items = val[1] if val[0] == "seq" else [val[1]]
                    (a_b, a_v, a_a), _ = _abs_equal_many([[before], [items], [after]])
                    _emit({"op": "rsetitem", "n": len(before), "key": k, "before": a_b[0],
                           "value": [val[0], a_v[0] if val[0] == "seq" else a_v[0][0]],
                           "after": a_a[0], "ok": err is None, "errclass": type(err).__name__ if err else ""})
            except TypeError:
                _emit({"op": "rsetitem", "skipped": "unhashable values"})
        if err is not None:
            raise err
    Vector.__setitem__ = setitem

    # ------------------------------------------------------------------ C03 monitor on every vector the tests build
    orig_init = Vector.__init__

    def init(self, *a, **k):
        orig_init(self, *a, **k)
        try:
            if type(self).__name__ == "Table":
                return
            ev = A.truth_event(list(self._underlying), self._dtype, "vector built while running the repository's tests")
            if ev:
                key = (ev["kind"], ev["nullable"], tuple(ev["tags"]))
                _truth.setdefault(key, ev)
        except Exception:      # noqa: BLE001
            pass
    Vector.__init__ = init


def pytest_configure(config):
    if ENABLED:
        _install()


def pytest_sessionfinish(session, exitstatus):
    if ENABLED:
        with open(OUT, "w") as f:
            for i, e in enumerate(_events):
                e["id"] = i + 1
                f.write(json.dumps(e, default=str) + "\n")
            f.write(json.dumps({"op": "_truth", "events": list(_truth.values())}, default=str) + "\n")
