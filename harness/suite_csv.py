"""SerifCsv suite (C19)."""
import json
import os

import engine

CLASSES = '{"blank", "spaces", "int", "padint", "float", "text", "quoted", "numlike"}'
C19_CL = ("csv_error", "csv_shape", "csv_names", "csv_cells")


def _cfg(w, m, classes=CLASSES):
    return f"""INIT Init
NEXT Next
CONSTANTS
  W = {w}
  MaxRec = {m}
  Classes = {classes}
INVARIANT Emit
INVARIANT ShapeLaws
CHECK_DEADLOCK FALSE
"""


def gen(rep, tier, clauses):
    sc = engine.scratch()
    mon = {"truth": [], "rule": [], "writeback": []}
    scopes = [(2, 2), (3, 1), (1, 3)] if tier == "quick" else [(2, 3), (3, 2), (1, 3)]
    for w, m in scopes:
        classes = CLASSES if not (tier == "thorough" and (w, m) in ((2, 3), (3, 2))) else '{"blank", "int", "padint", "float", "text", "quoted"}'
        r = engine.run_tlc("Gen_Csv", _cfg(w, m, classes), timeout=1800)
        rep.add_mc(r, f"Gen_Csv width={w} records<={m}: shape laws + cases")
        cases = [dict(c, _n=i) for i, (_, c) in enumerate(r.prints)]
        cp, op = os.path.join(sc, "csv_cases.json"), os.path.join(sc, "csv_out.json")
        json.dump(cases, open(cp, "w"))
        rep.sample({"suite": "csv.gen", "case": cases[len(cases) // 2]})
        engine.run_driver("drv_csv.py", ["replay", cp, op], timeout=1800)
        out = json.load(open(op))
        rep.gen_cases += out["executed"]
        for k, v in out["skipped"].items():
            rep.skip(k, v)
        for f in out["failures"]:
            if f["clause"] in clauses:
                rep.fail(f["clause"], "csv.gen", {k: v for k, v in f.items() if k not in ("clause", "observed", "expected")},
                         f["observed"], f["expected"])
        for k in mon:
            mon[k] += out.get(k, [])
    return mon


def random_texts(rep, tier, seed, clauses):
    sc = engine.scratch()
    op = os.path.join(sc, "csv_rand_out.json")
    n = 500 if tier == "quick" else 10000
    engine.run_driver("drv_csv.py", ["record", str(seed), str(n), op], timeout=1800)
    out = json.load(open(op))
    rep.gen_cases += out["executed"]
    rep.extra["csv_random_texts"] = out["executed"]
    for f in out["failures"]:
        if f["clause"] in clauses:
            rep.fail(f["clause"], "csv.random", {k: v for k, v in f.items() if k not in ("clause", "observed", "expected")},
                     f["observed"], f["expected"])
    return {k: out.get(k, []) for k in ("truth", "rule", "writeback")}
