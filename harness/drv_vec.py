"""Driver for the SerifVector suites (C05 C06 C07 C08 + C03/C04/C18 clauses on the results).

  replay <suite> <cases.json> <out.json>
"""
import itertools
import json
import math
import operator
import sys
import warnings
from datetime import date, datetime, timedelta

warnings.simplefilter("ignore")
from serif import Vector, Table                                               # noqa: E402
from serif.errors import SerifTypeError, SerifValueError, SerifIndexError      # noqa: E402
import absval as A                                                             # noqa: E402
from tabutil import vec_view, table_view, table_rows, views_equal, Monitor     # noqa: E402

NONEI = 99
MAXFAIL = 30


class Fails:
    def __init__(self):
        self.items, self.per, self.skipped = [], {}, {}

    def add(self, clause, case, observed, expected, **extra):
        self.per[clause] = self.per.get(clause, 0) + 1
        if self.per[clause] <= MAXFAIL:
            self.items.append({"clause": clause, "case": case, "observed": observed, "expected": expected, **extra})

    def skip(self, why):
        self.skipped[why] = self.skipped.get(why, 0) + 1


def attempt(fn):
    try:
        return ("ok", fn(), None)
    except Exception as ex:      # noqa: BLE001
        return ("err", None, ex)


def ival(x):
    return None if x == NONEI else x


# palettes for "a vector of length n with distinguishable elements" (optionally None at some positions)
def make_vals(tag, n, pal, nones=()):
    out = []
    for i in range(n):
        if (i + 1) in nones:
            out.append(None)
        elif tag == "bool":
            out.append(bool((i + pal) % 2))
        else:
            out.append(A.concrete(tag, i + 1, pal))
    return out


# ------------------------------------------------------------------------------ C07
def replay_index(cases, F, mon):
    executed = 0
    # "mixf" / "mixi": a float vector that also holds Python ints, an int vector that also holds bools - the selected
    # part alone would infer another kind, but indexing keeps the vector's kind
    tags = ["int", "str", "float", "date", "object", "mixf", "mixi"]
    for n_case, c in enumerate(cases):
        n_case = c.get("_n", n_case)
        tag = tags[n_case % len(tags)]
        pal = (n_case // 5) % 3
        n = c["n"]
        nones = {2} if (n_case // 15) % 2 and n >= 2 else set()
        if tag == "object":
            vals = [[1, "a", 2.5, None, (1, 2)][i % 5] for i in range(n)]
        elif tag == "mixf":
            vals = [None if (i + 1) in nones else (i + 1 if (i + pal) % 2 == 0 else i + 1.5) for i in range(n)]
        elif tag == "mixi":
            vals = [None if (i + 1) in nones else (bool(i % 3) if (i + pal) % 2 == 0 else i + 5) for i in range(n)]
        else:
            vals = make_vals(tag, n, pal, nones)
        v = Vector(list(vals), name="nm")
        before = vec_view(v)
        info = {"tag": tag, "palette": pal}
        # a table over the same rows (two columns) for the "same selection on every column" clause
        tcols = [list(vals), [100 + i for i in range(n)]]
        t = Table({"a": list(tcols[0]), "b b": list(tcols[1])}) if n else None
        if c["suite"] == "slice":
            sl = slice(ival(c["s"]), ival(c["e"]), ival(c["st"]))
            py_idx = list(range(n))[sl]
            if py_idx != c["idx"]:
                raise SystemExit(f"SPEC-BUG SliceIdx disagrees with Python for n={n} {sl}: {c['idx']} vs {py_idx}")
            st, r, ex = attempt(lambda: v[sl])
            executed += 1
            exp = [vals[i] for i in c["idx"]]
            if st != "ok":
                F.add("slice", c, "raised " + type(ex).__name__, exp, **info)
            else:
                if not views_equal(list(r), exp):
                    F.add("slice", c, list(r), exp, **info)
                if r.name != "nm":
                    F.add("names", c, r.name, "nm", op="slice", **info)
                if v.schema() is not None and r.schema() is not None and r.schema().kind is not v.schema().kind:
                    F.add("slice_kind", c, str(r.schema()), str(v.schema()), **info)
                if r is v:
                    F.add("operands_unchanged", c, "slice returned the vector itself", "a new vector", **info)
                mon.see(r, "v[slice]")
            if t is not None:
                st, r, ex = attempt(lambda: t[sl])
                executed += 1
                exprows = [[tcols[0][i], tcols[1][i]] for i in c["idx"]]
                if st != "ok":
                    F.add("table_rows", c, "raised " + type(ex).__name__, exprows, **info)
                elif not isinstance(r, Table):
                    if exprows:
                        F.add("table_rows", c, "not a Table: " + type(r).__name__, exprows, **info)
                else:
                    got = table_rows(r)
                    if not views_equal(got, exprows):
                        F.add("table_rows", c, got, exprows, **info)
                    if exprows and r.column_names() != ["a", "b b"]:
                        F.add("names", c, r.column_names(), ["a", "b b"], op="table slice", **info)
        elif c["suite"] == "mask":
            mask = c["mask"]
            if n == 0 and not mask:
                # the zero-length mask of the right length: a TYPED empty bool vector (e.g. the result of a
                # comparison on an empty column) must select nothing from an empty vector / a zero-row table
                from serif import DataType
                base_t = Table({"a": [1, 2], "b b": ["x", "y"]})
                for label, t0 in (("t[0:0]", base_t[0:0]), ("t[all-False mask]", base_t[[False, False]])):
                    if not isinstance(t0, Table):
                        continue
                    for mlabel, m0 in (("comparison on an empty column", lambda: t0.cols()[0] > 5),
                                       ("Vector([], dtype=bool)", lambda: Vector([], dtype=DataType(bool)))):
                        st, r, ex = attempt(lambda: t0[m0()])
                        executed += 1
                        if st != "ok":
                            F.add("table_rows", c, "raised " + type(ex).__name__ + ": " + str(ex)[:60], [], table=label, mask=mlabel, **info)
                        elif isinstance(r, Table) and (len(r) != 0 or r.column_names() != ["a", "b b"]):
                            F.add("table_rows", c, [len(r), r.column_names()], [0, ["a", "b b"]], table=label, mask=mlabel, **info)
                        v0 = t0.cols()[0]
                        st, r, ex = attempt(lambda: v0[m0()])
                        executed += 1
                        if st != "ok" or list(r) != []:
                            F.add("mask", c, "raised " + type(ex).__name__ if st != "ok" else list(r), [], table=label, mask=mlabel, **info)
            for form in ("list", "vector"):
                if form == "vector" and not mask:
                    continue
                key = list(mask) if form == "list" else Vector(list(mask))
                if form == "list" and not mask:
                    F.skip("empty list key is ambiguous (mask or index list)")
                    continue
                st, r, ex = attempt(lambda: v[key])
                executed += 1
                if not c["ok"]:
                    if st == "ok":
                        F.add("mask_length", c, list(r), "an error (mask of the wrong length)", form=form, **info)
                    continue
                exp = [vals[i] for i in c["idx"]]
                if st != "ok":
                    F.add("mask", c, "raised " + type(ex).__name__, exp, form=form, **info)
                else:
                    if not views_equal(list(r), exp):
                        F.add("mask", c, list(r), exp, form=form, **info)
                    if r.name != "nm":
                        F.add("names", c, r.name, "nm", op="mask", **info)
                    if v.schema() is not None and r.schema() is not None and r.schema().kind is not v.schema().kind:
                        F.add("slice_kind", c, str(r.schema()), str(v.schema()), op="mask", form=form, **info)
                    mon.see(r, "v[mask]")
                if t is not None and c["ok"]:
                    st, r, ex = attempt(lambda: t[key])
                    executed += 1
                    exprows = [[tcols[0][i], tcols[1][i]] for i in c["idx"]]
                    if st != "ok":
                        F.add("table_rows", c, "raised " + type(ex).__name__, exprows, form=form, **info)
                    elif isinstance(r, Table):
                        if not views_equal(table_rows(r), exprows):
                            F.add("table_rows", c, table_rows(r), exprows, form=form, **info)
                        elif [x.schema().kind for x in r.cols() if x.schema() is not None] != [x.schema().kind for x in t.cols() if x.schema() is not None]:
                            F.add("slice_kind", c, [str(x.schema()) for x in r.cols()], [str(x.schema()) for x in t.cols()], op="t[mask]", form=form, **info)
                    elif exprows:
                        F.add("table_rows", c, "not a Table", exprows, form=form, **info)
        elif c["suite"] == "int":
            st, r, ex = attempt(lambda: v[c["i"]])
            executed += 1
            if c["pos"] < 0:
                if st == "ok":
                    F.add("int_index", c, r, "IndexError", **info)
                elif not isinstance(ex, IndexError):
                    F.add("int_index", c, type(ex).__name__, "IndexError", **info)
            elif st != "ok" or not A.same_value(r, vals[c["pos"]]):
                F.add("int_index", c, repr(r) if st == "ok" else type(ex).__name__, vals[c["pos"]], **info)
        if not views_equal(before, vec_view(v)):
            F.add("operands_unchanged", c, "indexing changed the vector", "unchanged", **info)
    return executed


# ------------------------------------------------------------------------------ C05 / C06
BIN_OPS = {"add": operator.add, "sub": operator.sub, "mul": operator.mul, "truediv": operator.truediv,
           "floordiv": operator.floordiv, "mod": operator.mod, "pow": operator.pow}
CMP_OPS = {"eq": operator.eq, "ne": operator.ne, "lt": operator.lt, "le": operator.le, "gt": operator.gt,
           "ge": operator.ge}
UNARY = {"neg": operator.neg, "pos": operator.pos, "abs": operator.abs}
# (left tag, right tag, operators)
PAIRS = [("int", "int", list(BIN_OPS) + list(CMP_OPS)), ("int", "float", list(BIN_OPS) + list(CMP_OPS)),
         ("float", "int", list(BIN_OPS) + list(CMP_OPS)), ("bool", "int", ["add", "sub", "mul", "truediv", "floordiv", "mod", "eq", "lt"]),
         ("int", "bool", ["add", "sub", "mul", "eq", "ge"]), ("float", "float", list(BIN_OPS) + list(CMP_OPS)),
         ("str", "str", ["add", "eq", "ne", "lt", "ge"]), ("str", "int", ["mul"]), ("int", "str", ["mul"]),
         ("complex", "int", ["add", "sub", "mul", "truediv", "eq"]), ("date", "date", ["eq", "lt", "ge", "sub"]),
         ("int", "complex", ["add", "mul"]), ("dtsame", "dtsame", ["eq", "ne", "lt", "le", "gt", "ge", "sub"])]


def operand_vals(tag, n, pal, side):
    # values that keep every scalar operation defined (no zero divisors, small exponents)
    out = []
    for i in range(n):
        k = i + 2 + side
        if tag == "bool":
            out.append(True if side else bool(i % 2))
        elif tag == "int":
            out.append([k, k + 3, -k][pal % 3])
        elif tag == "float":
            out.append([k + 0.5, -(k + 0.25), k * 1.5][pal % 3])
        elif tag == "complex":
            out.append(complex(k, 1))
        elif tag == "str":
            out.append("s%d" % k if side == 0 else "t%d" % k)
        elif tag == "date":
            out.append(date(2020, 1, 1) + timedelta(days=k * (3 if side else 5)))
        elif tag == "dtsame":
            # timestamps of one calendar day; the two sides interleave, so ignoring the time of day changes every answer
            from datetime import datetime as _dtm
            out.append(_dtm(2021, 6, 1, 0, 0) + timedelta(minutes=(37 * k if side == 0 else 41 * k - 5 + (0 if i % 2 else 40))))
    return out


def replay_elem(cases, F, mon):
    executed = 0
    for n_case, c in enumerate(cases):
        n_case = c.get("_n", n_case)
        mode, la, lb = c["mode"], c["la"], c["lb"]
        na, nb = set(c["na"]), set(c["nb"])
        for pn, (lt, rt, ops) in enumerate(PAIRS):
            pal = (n_case + pn) % 3
            lvals = operand_vals(lt, la, pal, 0)
            rvals = operand_vals(rt, lb, pal, 1)
            lvals = [None if (i + 1) in na else x for i, x in enumerate(lvals)]
            rvals = [None if (i + 1) in nb else x for i, x in enumerate(rvals)]
            for opname in ops:
                is_cmp = opname in CMP_OPS
                fn = CMP_OPS[opname] if is_cmp else BIN_OPS[opname]
                # written-left / written-right python operands
                if mode == "vv":
                    L, R = Vector(list(lvals), name="L"), Vector(list(rvals), name="R")
                elif mode == "vs":
                    L, R = Vector(list(lvals), name="L"), rvals[0]
                elif mode == "vl":
                    L, R = Vector(list(lvals), name="L"), list(rvals)
                elif mode == "sv":
                    L, R = lvals[0], Vector(list(rvals), name="R")
                else:
                    L, R = list(lvals), Vector(list(rvals), name="R")
                if mode in ("vv", "vl", "lv") and la == 0 and lb == 0:
                    pass
                # expected, position by position, computed by Python itself on the scalars
                exp, undefined = None, False
                if c["ok"]:
                    exp = []
                    for pr in c["res"]:
                        if pr == [0, 0]:
                            exp.append(False if is_cmp else None)
                            continue
                        x, y = lvals[pr[0] - 1], rvals[pr[1] - 1]
                        try:
                            val = fn(x, y)
                            exp.append(bool(val) if is_cmp else val)
                        except Exception:       # noqa: BLE001  Python itself does not define it: outside C05
                            undefined = True
                            break
                if undefined:
                    F.skip("python scalar operation undefined for the operands")
                    continue
                if mode == "lv" and opname in ("eq", "ne") and False:
                    continue
                views = [(x, vec_view(x)) for x in (L, R) if isinstance(x, Vector)]
                st, r, ex = attempt(lambda: fn(L, R))
                executed += 1
                info = {"op": opname, "tags": [lt, rt], "palette": pal}
                for x, vw in views:
                    if not views_equal(vw, vec_view(x)):
                        F.add("operands_unchanged", c, "operand changed by " + opname, "unchanged", **info)
                if not c["ok"]:
                    if st == "ok" and isinstance(r, Vector):
                        F.add("length_mismatch", c, list(r), "an error (operand lengths differ)", **info)
                    elif st == "ok":
                        F.add("length_mismatch", c, repr(r), "an error (operand lengths differ)", **info)
                    continue
                if st != "ok":
                    clause = "none_handling" if (na or nb) and not is_cmp else ("compare" if is_cmp else "elementwise")
                    if (na or nb) and is_cmp:
                        clause = "none_compare"
                    F.add(clause, c, "raised " + type(ex).__name__ + ": " + str(ex)[:80], exp, **info)
                    continue
                if not isinstance(r, Vector):
                    F.add("elementwise", c, "result is " + type(r).__name__, "a Vector", **info)
                    continue
                got = list(r)
                if len(got) != len(exp):
                    F.add("shape", c, len(got), len(exp), **info)
                    continue
                bad_none = [i for i, (g, e) in enumerate(zip(got, exp)) if (g is None) != (e is None)]
                if bad_none:
                    F.add("none_handling", c, got, exp, **info)
                elif not all(A.same_value(g, e) for g, e in zip(got, exp)):
                    F.add("compare" if is_cmp else "elementwise", c, got, exp, **info)
                if is_cmp:
                    sch = r.schema()
                    if got and (sch is None or sch.kind is not bool or sch.nullable):
                        F.add("compare_dtype", c, str(sch), "<bool>", **info)
                if mode == "vv" and r.name is not None:
                    F.add("names", c, r.name, None, **info)
                if any(r is x for x, _ in views):
                    F.add("operands_unchanged", c, "result is an operand", "a new vector", **info)
                mon.see(r, f"{mode}:{opname}", rule=not is_cmp)
        # comparisons of two vectors that differ ONLY at positions whose hash() collides (-1 / -2,
        # 0 / 2**61-1): the result must still be Python's own comparison
        if mode == "vv" and c["ok"] and la >= 1 and not na and not nb:
            base = [5, 7, 9][:la - 1]
            for a0, b0 in ((-1, -2), (0, 2 ** 61 - 1), (-2, -1)):
                lv, rv = [a0] + base, [b0] + base
                for opname in ("eq", "ne", "le", "gt"):
                    fn = CMP_OPS[opname]
                    exp = [bool(fn(x, y)) for x, y in zip(lv, rv)]
                    st, r, ex = attempt(lambda: fn(Vector(list(lv)), Vector(list(rv))))
                    executed += 1
                    info = {"op": opname, "tags": ["int", "int"], "values": [lv, rv]}
                    if st != "ok":
                        F.add("compare", c, "raised " + type(ex).__name__, exp, **info)
                    elif list(r) != exp:
                        F.add("compare", c, list(r), exp, **info)
                lstr, rstr = ["a"] + ["s"] * (la - 1), ["b"] + ["s"] * (la - 1)
                st, r, ex = attempt(lambda: Vector(list(lstr)) == Vector(list(rstr)))
                if st == "ok" and list(r) != [x == y for x, y in zip(lstr, rstr)]:
                    F.add("compare", c, list(r), [x == y for x, y in zip(lstr, rstr)], op="eq", tags=["str", "str"])
        # unary operators on the written-left operand (vector forms only)
        if mode == "vs":
            for tag in ("int", "float", "bool", "complex", "mixi"):
                vals = operand_vals(tag if tag != "mixi" else "int", la, n_case % 3, 0)
                vals = [None if (i + 1) in na else (-x if (i % 2 and tag != "bool") else x) for i, x in enumerate(vals)]
                if tag == "mixi":           # an int vector that also holds bools: +True is 1, -True is -1, abs(True) is 1
                    vals = [(bool(i % 3) if (x is not None and i % 2 == 0) else x) for i, x in enumerate(vals)]
                    if not any(isinstance(x, int) and not isinstance(x, bool) for x in vals):
                        continue
                for uname, ufn in UNARY.items():
                    v = Vector(list(vals), name="U")
                    before = vec_view(v)
                    exp = [None if x is None else ufn(x) for x in vals]
                    st, r, ex = attempt(lambda: ufn(v))
                    executed += 1
                    info = {"op": uname, "tags": [tag]}
                    if st != "ok":
                        F.add("none_handling" if na else "elementwise", c, "raised " + type(ex).__name__, exp, **info)
                        continue
                    got = list(r)
                    if len(got) != len(exp) or [g is None for g in got] != [e is None for e in exp]:
                        F.add("none_handling", c, got, exp, **info)
                    elif not all(A.same_value(g, e) for g, e in zip(got, exp)):
                        F.add("elementwise", c, got, exp, **info)
                    if not views_equal(before, vec_view(v)):
                        F.add("operands_unchanged", c, "operand changed by " + uname, "unchanged", **info)
                    mon.see(r, "unary:" + uname, rule=True)
            # the SAME vector object as both operands (v == v, v <= v, v + v, v - v ...): still the
            # Python operation element by element, None -> None (arithmetic) / False (comparison)
            for tag, ops in (("int", list(BIN_OPS) + list(CMP_OPS)), ("float", list(BIN_OPS) + list(CMP_OPS)),
                             ("str", ["add", "eq", "ne", "lt", "le", "ge"]), ("bool", ["add", "eq", "le", "gt"]),
                             ("date", ["eq", "le", "ge", "lt", "sub"]),
                             # values that are not equal to themselves: identity is no short cut for ==
                             ("fnan", list(CMP_OPS) + ["add", "mul"]), ("decnan", ["eq", "ne"]), ("cnan", ["eq", "ne"])):
                if tag in ("fnan", "decnan", "cnan"):
                    from decimal import Decimal as _Dec
                    special = {"fnan": [float("nan"), 1.5, float("inf"), float("nan")], "decnan": [_Dec("NaN"), _Dec("1.5"), _Dec("NaN")],
                               "cnan": [complex("nan"), 2j, complex(1, float("nan"))]}[tag]
                    vals = [special[(i + n_case) % len(special)] for i in range(la)]
                else:
                    vals = operand_vals(tag, la, n_case % 3, 0)
                vals = [None if (i + 1) in na else x for i, x in enumerate(vals)]
                for opname in ops:
                    is_cmp = opname in CMP_OPS
                    fn = CMP_OPS[opname] if is_cmp else BIN_OPS[opname]
                    try:
                        exp = [(False if is_cmp else None) if x is None else (bool(fn(x, x)) if is_cmp else fn(x, x)) for x in vals]
                    except Exception:      # noqa: BLE001
                        F.skip("python scalar operation undefined for the operands")
                        continue
                    v = Vector(list(vals), name="S")
                    before = vec_view(v)
                    st, r, ex = attempt(lambda: fn(v, v))
                    executed += 1
                    info = {"op": opname, "tags": [tag, tag], "operands": "the same vector object twice"}
                    if st != "ok" or not isinstance(r, Vector):
                        F.add(("none_compare" if is_cmp else "none_handling") if na else ("compare" if is_cmp else "elementwise"), c,
                              "raised " + type(ex).__name__ if st != "ok" else repr(r), exp, **info)
                        continue
                    got = list(r)
                    if len(got) != len(exp) or [g is None for g in got] != [e is None for e in exp]:
                        F.add("none_handling", c, got, exp, **info)
                    elif not all(A.same_value(g, e) for g, e in zip(got, exp)):
                        clause = ("none_compare" if any(x is None and g != e for x, g, e in zip(vals, got, exp)) else "compare") if is_cmp else "elementwise"
                        F.add(clause, c, got, exp, **info)
                    if not views_equal(before, vec_view(v)):
                        F.add("operands_unchanged", c, "operand changed by " + opname, "unchanged", **info)
                    if r is v:
                        F.add("operands_unchanged", c, "result is the operand", "a new vector", **info)
                    mon.see(r, "self:" + opname, rule=not is_cmp)
    return executed


def py_reduce(name, vals):
    if name == "sum":
        return sum(vals)
    if name == "min":
        return min(vals)
    if name == "max":
        return max(vals)
    if name == "mean":
        return sum(vals) / len(vals)
    if name == "stdev":
        m = sum(vals) / len(vals)
        return (sum((x - m) * (x - m) for x in vals) / (len(vals) - 1)) ** 0.5
    if name == "any":
        return any(vals)
    if name == "all":
        return all(vals)


def close(a, b):
    if a == b and type(a) is type(b):
        return True
    if isinstance(a, float) or isinstance(b, float):
        try:
            return abs(a - b) <= 1e-9 * max(1.0, abs(b))
        except TypeError:
            return False
    return A.same_value(a, b)


def replay_na(cases, F, mon):
    executed = 0
    tags = ["int", "float", "str", "date", "bool", "float_nan"]
    for n_case, c in enumerate(cases):
        n_case = c.get("_n", n_case)
        for tag in tags:
            pal = n_case % 3
            if tag == "float_nan":
                # NaN and infinities are VALUES, not missing: only None is "na"
                conc = lambda x: None if x == -1 else [float("nan"), float("inf"), 2.5, 7.0][x if x < 3 else 3]   # noqa: E731
            else:
                conc = lambda x: None if x == -1 else (bool(x % 2) if tag == "bool" else A.concrete(tag, x, pal))   # noqa: E731
            vals = [conc(x) for x in c["vals"]]
            if not vals:
                continue
            v = Vector(list(vals), name="nm")
            before = vec_view(v)
            info = {"tag": tag, "palette": pal}
            executed += 1
            if len(v) != len(vals):
                F.add("len_counts_none", c, len(v), len(vals), **info)
            st, r, ex = attempt(lambda: v.isna())
            if st != "ok" or list(r) != c["isna"]:
                F.add("isna", c, list(r) if st == "ok" else type(ex).__name__, c["isna"], **info)
            st, r, ex = attempt(lambda: v.dropna())
            expd = [conc(x) for x in c["dropna"]]
            if st != "ok" or not views_equal(list(r), expd):
                F.add("dropna", c, list(r) if st == "ok" else type(ex).__name__, expd, **info)
            elif r.schema() is not None and r.schema().nullable:
                F.add("dropna_nullable", c, str(r.schema()), "non-nullable", **info)
            if st == "ok":
                mon.see(r, "dropna")
            fillv = conc(7) if tag != "bool" else True
            if tag == "float_nan":
                fillv = 7.0
            expf = [fillv if x is None else x for x in vals]
            st, r, ex = attempt(lambda: v.fillna(fillv))
            if st != "ok" or not views_equal(list(r), expf):
                F.add("fillna", c, list(r) if st == "ok" else type(ex).__name__, expf, **info)
            else:
                if r.schema() is not None and r.schema().nullable:
                    F.add("fillna_nullable", c, str(r.schema()), "non-nullable", **info)
                mon.see(r, "fillna")
            # the same laws on vectors with a HISTORY: no None left, but the dtype still says nullable
            # (a mask / slice that leaves the Nones behind, a None overwritten in place)
            if any(x is None for x in vals) and expd:
                keep = [x is not None for x in vals]
                derived = [("v[mask of non-None]", lambda: v[list(keep)]),
                           ("v[Vector mask]", lambda: v[Vector(list(keep))])]
                first = next(i for i, x in enumerate(vals) if x is not None)
                if all(keep[first:]) or True:
                    lo = first
                    hi = lo + 1
                    while hi < len(vals) and vals[hi] is not None:
                        hi += 1
                    derived.append(("v[a:b] without None", lambda: v[lo:hi]))

                def overwritten():
                    w = v.copy()
                    for i, x in enumerate(vals):
                        if x is None:
                            w[i] = expd[0]
                    return w
                derived.append(("None overwritten in place", overwritten))
                for label, mk in derived:
                    st, d, ex = attempt(mk)
                    if st != "ok":
                        continue
                    dvals = list(d)
                    if any(x is None for x in dvals):
                        continue
                    executed += 1
                    for opname, call in (("fillna", lambda: d.fillna(fillv)), ("dropna", lambda: d.dropna())):
                        st, r, ex = attempt(call)
                        if st != "ok" or not views_equal(list(r), dvals):
                            F.add(opname, c, list(r) if st == "ok" else type(ex).__name__, dvals, history=label, **info)
                        elif r.schema() is not None and r.schema().nullable:
                            F.add(opname + "_nullable", c, str(r.schema()), "non-nullable", history=label, **info)
                    st, r, ex = attempt(lambda: d.isna())
                    if st != "ok" or any(list(r)):
                        F.add("isna", c, list(r) if st == "ok" else type(ex).__name__, [False] * len(dvals), history=label, **info)
            # reductions skip None: equal Python's reduction of the None-free list
            clean = expd
            reds = {"float_nan": [],
                    "int": ["sum", "mean", "min", "max", "stdev", "any", "all"], "float": ["sum", "mean", "min", "max", "stdev", "any", "all"],
                    "bool": ["sum", "any", "all", "min", "max"], "str": ["min", "max", "any", "all"], "date": ["min", "max"]}[tag]
            for red in reds:
                st, r, ex = attempt(lambda: getattr(v, red)())
                executed += 1
                if not clean or (red == "stdev" and len(clean) < 2):
                    # nothing to agree with: only "does not treat None as a value"
                    if st == "err" and isinstance(ex, TypeError) and clean:
                        F.add("reduce_none", c, f"{red}() raised TypeError", "None skipped", red=red, **info)
                    elif st == "ok" and red in ("sum",) and not clean and r != 0:
                        F.add("reduce_none", c, r, 0, red=red, **info)
                    continue
                exp = py_reduce(red, clean)
                if st != "ok":
                    F.add("reduce_none", c, f"{red}() raised {type(ex).__name__}", exp, red=red, **info)
                elif not close(r, exp):
                    F.add("reduce_none", c, r, exp, red=red, **info)
            # scalar comparison: False wherever the element is None
            if tag == "float_nan":
                if not views_equal(before, vec_view(v)):
                    F.add("operands_unchanged", c, "vector changed by a read-only operation", "unchanged", **info)
                continue
            probe = conc(1) if tag != "bool" else True
            for opname, fn in (("eq", operator.eq), ("lt", operator.lt), ("ge", operator.ge), ("ne", operator.ne)):
                exp = [False if x is None else bool(fn(x, probe)) for x in vals]
                st, r, ex = attempt(lambda: fn(v, probe))
                executed += 1
                if st != "ok":
                    F.add("none_compare", c, "raised " + type(ex).__name__, exp, op=opname, **info)
                elif list(r) != exp:
                    F.add("none_compare", c, list(r), exp, op=opname, **info)
            if not views_equal(before, vec_view(v)):
                F.add("operands_unchanged", c, "vector changed by a read-only operation", "unchanged", **info)
    return executed


# ------------------------------------------------------------------------------ C08
class FaultySeq:
    """a sequence whose consumption raises at item k (k = len -> never)"""

    def __init__(self, items, k, how):
        self.items, self.k, self.how = list(items), k, how

    def __len__(self):
        if self.how == "len":
            raise RuntimeError("fault in __len__")
        return len(self.items)

    def __iter__(self):
        for i, x in enumerate(self.items):
            if self.how == "iter" and i == self.k:
                raise RuntimeError("fault while iterating")
            yield x

    def __getitem__(self, i):
        if self.how == "iter" and i == self.k:
            raise RuntimeError("fault in __getitem__")
        return self.items[i]


def mk_key(key, form):
    kind = key[0]
    if kind == "int":
        return key[1]
    if kind == "slice":
        return slice(ival(key[1]), ival(key[2]), ival(key[3]))
    if kind == "mask":
        return list(key[1]) if form == 0 else Vector(list(key[1]))
    if kind == "list":
        return [list(key[1]), tuple(key[1]), Vector(list(key[1]))][form % 3]


def replay_assign(cases, F, mon):
    executed = 0
    for n_case, c in enumerate(cases):
        n_case = c.get("_n", n_case)
        n, key, value = c["n"], c["key"], c["value"]
        kind = key[0]
        for form in range(3 if kind == "list" else (2 if kind == "mask" else 1)):
            if kind in ("mask", "list") and not key[1] and form != 1:
                if not (kind == "list" and form == 1):
                    F.skip("empty list/Vector key is ambiguous (mask or index list)")
                    continue
            if kind == "mask" and form == 1 and not key[1]:
                continue
            if kind == "list" and form == 2 and not key[1]:
                continue
            tag = ["int", "str", "float"][(n_case + form) % 3]
            orig = [A.concrete(tag, x, 0) for x in range(11, 11 + n)]
            mapv = lambda x: A.concrete(tag, x, 0)     # noqa: E731
            v = Vector(list(orig), name="nm")
            if n == 0:
                v = Vector([], name="nm")
            k = mk_key(key, form)
            if value[0] == "scalar":
                val = mapv(value[1])
            else:
                seq = [mapv(x) for x in value[1]]
                val = [seq, tuple(seq), Vector(seq)][(n_case // 3) % 3] if seq else seq
            before = vec_view(v)
            fp_before = v.fingerprint()
            info = {"tag": tag, "key_form": form, "value_form": type(val).__name__}

            def do():
                v[k] = val
            st, _, ex = attempt(do)
            executed += 1
            # cross-validation of the spec against Python's own list assignment (where Python defines it)
            if c["ok"] and kind in ("int", "slice") and not (kind == "slice" and value[0] == "scalar"):
                ref = list(range(11, 11 + n))
                try:
                    if kind == "int":
                        ref[key[1]] = value[1] if value[0] == "scalar" else None
                    else:
                        ref[mk_key(key, 0)] = list(value[1])
                    if value[0] != "scalar" or kind == "int":
                        if kind == "int" and value[0] != "scalar":
                            pass
                        elif len(ref) == n and ref != c["contents"]:
                            raise SystemExit(f"SPEC-BUG AssignContents disagrees with Python list assignment: {c} vs {ref}")
                except (IndexError, ValueError):
                    pass
            if kind == "int" and value[0] == "seq":
                # v[i] = [..]: a sequence stored into one cell is not "a scalar or a same-length sequence"
                F.skip("sequence value for an integer key")
                continue
            if c["ok"]:
                exp = [mapv(x) for x in c["contents"]]
                if st != "ok":
                    F.add("assign", c, "raised " + type(ex).__name__ + ": " + str(ex)[:60], exp, **info)
                else:
                    if not views_equal(list(v), exp):
                        F.add("assign", c, list(v), exp, **info)
                    if v.name != "nm" or len(v) != n:
                        F.add("assign_shape", c, [v.name, len(v)], ["nm", n], **info)
                    mon.see(v, "after assignment")
            else:
                if st == "ok":
                    F.add("assign_reject", c, list(v), "an error (bad index / length mismatch)", **info)
                if not views_equal(before, vec_view(v)) and st != "ok":
                    F.add("atomic", c, list(v), before["vals"], **info)
                elif st != "ok" and v.fingerprint() != fp_before:
                    F.add("atomic", c, "fingerprint changed by a failed assignment", "unchanged", **info)
            # fault injection: the value raises while it is consumed -> nothing may change
            if c["ok"] and value[0] == "seq" and kind != "int":
                seq = [mapv(x) for x in value[1]]
                for how, kk in [("len", 0)] + [("iter", j) for j in range(len(seq))]:
                    w = Vector(list(orig), name="nm") if n else Vector([], name="nm")
                    wb, wfp = vec_view(w), w.fingerprint()

                    def dof():
                        w[mk_key(key, form)] = FaultySeq(seq, kk, how)
                    st2, _, ex2 = attempt(dof)
                    executed += 1
                    if st2 == "ok":
                        if how == "iter":
                            F.add("fault_swallowed", c, "assignment succeeded although the value raised", "exception", fault=[how, kk], **info)
                    elif not views_equal(wb, vec_view(w)) or w.fingerprint() != wfp:
                        F.add("atomic", c, list(w), wb["vals"], fault=[how, kk], **info)
    return executed


CONV = {("int", "float"): float, ("int", "complex"): complex, ("float", "complex"): complex,
        ("bool", "int"): int, ("bool", "float"): float, ("bool", "complex"): complex,
        ("date", "datetime"): lambda d: datetime.combine(d, datetime.min.time())}


def replay_atype(cases, F, mon):
    executed = 0
    for n_case, c in enumerate(cases):
        n_case = c.get("_n", n_case)
        kind, nullable, tags = c["kind"], c["nullable"], c["tags"]
        if kind == "object":
            base = [1, "a", 2.5]
        else:
            base = [A.concrete(kind, i + 1, 0) if kind != "bool" else bool(i % 2) for i in range(3)]
        if kind in ("int", "float") and n_case % 3 == 0:
            base[1] = type(base[1])(0)          # a zero is a value like any other (promotion converts it, it does not vanish)
        # a nullable column does not have to HOLD a None (it may have been overwritten or sliced away): promotion keeps the
        # nullability of the dtype either way
        holds_none = nullable and (n_case // 2) % 2 == 0
        if holds_none:
            base[2] = None
        from serif import DataType
        py_kind = {v: k for k, v in A._KIND_TAG.items()}[kind]
        v = Vector(list(base), dtype=DataType(py_kind, nullable=nullable), name="nm")
        values = [A.concrete(t, 5 + j, 1) for j, t in enumerate(tags)]
        m = len(values)
        before, fp_before = vec_view(v), v.fingerprint()
        info = {"column": [kind, nullable], "values": [repr(x) for x in values], "column holds a None": holds_none}
        forms = [lambda: v.__setitem__(slice(0, m), list(values))]
        if m == 1:
            forms = [lambda: v.__setitem__(0, values[0]), lambda: v.__setitem__([True, False, False], values[0])][n_case % 2: n_case % 2 + 1]
        # ---- concatenation: v << values is typed by the left dtype promoted with EVERY appended value (C03, C04)
        for label, mk in (("v << list", lambda: v << list(values)), ("v << Vector", lambda: v << Vector(list(values))),
                          ("v << scalar", (lambda: v << values[0]) if m == 1 and not isinstance(values[0], (str, bytes, list, tuple, dict)) else None)):
            if mk is None:
                continue
            if label == "v << Vector" and not nullable and A.dtype_abs(Vector(list(values)).schema()) is not None \
                    and not Vector(list(values)).schema().nullable and Vector(list(values)).schema().kind is not py_kind:
                continue          # two typesafe vectors of different kinds: << refuses (precondition of that form)
            stc, rc, exc = attempt(mk)
            executed += 1
            if stc != "ok":
                F.add("concat", c, label + " raised " + type(exc).__name__ + ": " + str(exc)[:60], "a longer vector", **info)
                continue
            if not views_equal(list(rc), list(base) + list(values)):
                F.add("concat", c, [repr(x) for x in rc], [repr(x) for x in list(base) + list(values)], form=label, **info)
            if A.dtype_abs(rc.schema()) != (c["rkind"], c["rnullable"]):
                F.add("concat_dtype", c, A.dtype_abs(rc.schema()), [c["rkind"], c["rnullable"]], form=label, **info)
            mon.see(rc, label, rule=False)
        if not views_equal(before, vec_view(v)):
            F.add("operands_unchanged", c, "<< changed its left operand", "unchanged", **info)
        st, _, ex = attempt(forms[0])
        executed += 1
        out = c["outcome"]
        if out == "reject":
            if st == "ok":
                F.add("incompatible_accepted", c, {"dtype": str(v.schema()), "vals": [repr(x) for x in v]}, "SerifTypeError", **info)
            else:
                if not isinstance(ex, SerifTypeError):
                    F.add("reject_class", c, type(ex).__name__, "SerifTypeError", **info)
                if not views_equal(before, vec_view(v)) or v.fingerprint() != fp_before:
                    F.add("atomic", c, vec_view(v), before, **info)
            continue
        # keep / promote
        if st != "ok":
            declined = isinstance(ex, SerifTypeError) and views_equal(before, vec_view(v))
            if kind == "bool" and out == "promote" and declined:
                F.skip("bool column declines promotion (accepted reading: SerifTypeError with nothing changed)")
                continue
            F.add("compatible_rejected", c, type(ex).__name__ + ": " + str(ex)[:80], out, **info)
            if not views_equal(before, vec_view(v)):
                F.add("atomic", c, vec_view(v), before, **info)
            continue
        exp_dtype = (c["rkind"], c["rnullable"])
        got_dtype = A.dtype_abs(v.schema())
        if got_dtype != exp_dtype:
            F.add("promotion_dtype", c, got_dtype, exp_dtype, **info)
        conv = CONV.get((kind, c["rkind"]), lambda x: x) if c["rkind"] != kind else (lambda x: x)
        exp_vals = list(values) + [None if x is None else conv(x) for x in base[m:]]
        if not views_equal(list(v), exp_vals):
            F.add("promotion_contents", c, [repr(x) for x in v], [repr(x) for x in exp_vals], **info)
        if v.name != "nm" or len(v) != 3:
            F.add("assign_shape", c, [v.name, len(v)], ["nm", 3], **info)
        mon.see(v, "after typed assignment")
    # a fault INSIDE the promotion: an int too large for a float cannot be converted -> the assignment fails and
    # must leave contents, dtype and fingerprint exactly as they were (C08)
    for big, val in ((10 ** 309, 1.5), (10 ** 309, 2j), (-(10 ** 400), 0.25)):
        for key in (0, slice(1, 3), [False, True, False]):
            v = Vector([big, 2, 3], name="nm")
            before, fpb = vec_view(v), v.fingerprint()
            c = {"suite": "atype", "kind": "int", "fault": "OverflowError while converting existing elements", "value": repr(val)}
            st, _, ex = attempt(lambda: v.__setitem__(key, val if not isinstance(key, slice) else [val, val]))
            executed += 1
            if st == "ok":
                if not all(isinstance(x, (float, complex)) or x is None for x in v):
                    F.add("promotion_contents", c, [repr(x)[:20] for x in v], "all elements converted or the assignment refused")
            elif not views_equal(before, vec_view(v)) or v.fingerprint() != fpb:
                F.add("atomic", c, {"dtype": str(v.schema()), "vals": [repr(x)[:20] for x in v]}, {"dtype": "<int>", "unchanged": True})
    # a key that Python rejects (an index list / vector reaching len(v), or below -len(v)) together with a value that would
    # promote the column or make it nullable: the assignment fails and NOTHING has changed - contents, dtype, fingerprint
    from datetime import datetime as _dtm
    for base, wide in (([1, 2, 3], 2.5), ([1, 2, 3], None), ([1, 2, 3], 2j), ([1.5, 2.5], 1j), ([date(2020, 1, 1), date(2020, 1, 2)], _dtm(2020, 1, 1, 5)), ([0], 2.5)):
        nb = len(base)
        for kname, key in (("[0, n]", [0, nb]), ("[n]", [nb]), ("[-n-1]", [-nb - 1]), ("Vector([0, n])", Vector([0, nb])), ("(0, n)", (0, nb)), ("n", nb), ("-n-1", -nb - 1)):
            for vform in ("scalar", "sequence"):
                if vform == "sequence" and isinstance(key, int):
                    continue
                npos = 1 if isinstance(key, int) else len(list(key))
                v = Vector(list(base), name="nm")
                before, fpb = vec_view(v), v.fingerprint()
                c = {"suite": "atype", "values": repr(base), "key": kname, "value": repr(wide), "value form": vform}
                st, _, ex = attempt(lambda: v.__setitem__(key, wide if vform == "scalar" else [wide] * npos))
                executed += 1
                if st == "ok":
                    F.add("assign_shape", c, [repr(x) for x in v], "an IndexError (the key addresses a position the vector does not have)")
                elif not views_equal(before, vec_view(v)) or v.fingerprint() != fpb:
                    F.add("atomic", c, {"dtype": str(v.schema()), "vals": [repr(x) for x in v]}, {"dtype": str(Vector(list(base)).schema()), "vals": [repr(x) for x in base]})
                # the same through a table
                t = Table({"a": list(base), "k": list(range(nb))})
                tb = table_view(t)
                rowkey = key if not isinstance(key, int) else key
                st, _, ex = attempt(lambda: t.__setitem__((rowkey, "a"), wide if vform == "scalar" else [wide] * npos))
                executed += 1
                if st != "ok" and not views_equal(tb, table_view(t)):
                    F.add("atomic", dict(c, through="table"), table_view(t), tb)
    return executed


def record(seed, n, out_path):
    """random larger vector operations recorded as Trace_Vector events"""
    import random
    rnd = random.Random(seed)
    evs = []
    comp = lambda: rnd.choice([NONEI, NONEI] + list(range(-50, 51)))      # noqa: E731
    step = lambda: rnd.choice([NONEI, NONEI, 1, 2, 3, 7, -1, -2, -5, 40, -40])      # noqa: E731
    for eid in range(1, n + 1):
        kind = rnd.choice(["slice", "slice", "mask", "assign", "assign", "elem", "na"])
        ln = rnd.choice([0, 1, 2, 5, 13, 40])
        if kind == "slice":
            s_, e_, st_ = comp(), comp(), step()
            v = Vector(list(range(ln)))
            tgt = rnd.choice(["vector", "table"])
            if tgt == "vector" or ln == 0:
                st, r, ex = attempt(lambda: list(v[slice(ival(s_), ival(e_), ival(st_))]))
            else:
                t = Table({"p": list(range(ln)), "q": ["x"] * ln})

                def rowsel():
                    r_ = t[slice(ival(s_), ival(e_), ival(st_))]
                    return [row[0] for row in table_rows(r_)] if isinstance(r_, Table) else []
                st, r, ex = attempt(rowsel)
            evs.append({"id": eid, "op": "slice", "n": ln, "s": s_, "e": e_, "st": st_, "idx": r if st == "ok" else [-5], "on": tgt})
        elif kind == "mask":
            mask = [rnd.random() < 0.4 for _ in range(ln)]
            v = Vector(list(range(ln)))
            key = list(mask) if rnd.random() < 0.5 else (Vector(list(mask)) if mask else list(mask))
            if not mask:
                continue
            st, r, ex = attempt(lambda: list(v[key]))
            evs.append({"id": eid, "op": "mask", "mask": mask, "idx": r if st == "ok" else [-5]})
        elif kind == "assign":
            ln = rnd.choice([1, 2, 5, 13])
            form = rnd.choice(["int", "slice", "mask", "list"])
            if form == "int":
                key = ["int", rnd.randint(-ln - 2, ln + 1)]
            elif form == "slice":
                key = ["slice", comp(), comp(), step()]
            elif form == "mask":
                key = ["mask", [rnd.random() < 0.5 for _ in range(rnd.choice([ln, ln, ln, ln + 1]))]]
            else:
                key = ["list", [rnd.randint(-ln - 1, ln) for _ in range(rnd.randint(1, 4))]]
            # number of addressed positions (python semantics), to build right / wrong-length values
            try:
                if form == "int":
                    npos = 1
                elif form == "slice":
                    npos = len(range(ln)[slice(ival(key[1]), ival(key[2]), ival(key[3]))])
                elif form == "mask":
                    npos = sum(key[1])
                else:
                    npos = len(key[1])
            except Exception:      # noqa: BLE001
                npos = 1
            if form == "int" or rnd.random() < 0.4:
                value = ["scalar", 7]
            else:
                m = max(0, npos + rnd.choice([0, 0, 0, 1, -1]))
                value = ["seq", [20 + k for k in range(1, m + 1)]]
            v = Vector(list(range(11, 11 + ln)), name="nm")
            k = mk_key(key, rnd.randint(0, 2) if form == "list" else rnd.randint(0, 1))
            val = 7 if value[0] == "scalar" else [list, tuple, Vector][rnd.randint(0, 2)](value[1]) if value[1] else list(value[1])

            def do():
                v[k] = val
            st, _, ex = attempt(do)
            evs.append({"id": eid, "op": "assign", "n": ln, "key": key, "value": value, "ok": st == "ok", "contents": list(v),
                        "err": type(ex).__name__ if ex else None})
        elif kind == "elem":
            mode = rnd.choice(["vv", "vs", "vl", "sv", "lv"])
            la = 1 if mode == "sv" else ln
            lb = 1 if mode == "vs" else rnd.choice([ln, ln, ln, ln + 1, max(0, ln - 1)])
            if mode == "sv":
                lb = ln
            na = sorted(set(rnd.sample(range(1, la + 1), rnd.randint(0, min(la, 3))))) if mode != "sv" else []
            nb = sorted(set(rnd.sample(range(1, lb + 1), rnd.randint(0, min(lb, 3))))) if mode != "vs" else []
            lv = [None if (i + 1) in na else i + 2 for i in range(la)]
            rv = [None if (i + 1) in nb else i + 3 for i in range(lb)]
            L = Vector(lv) if mode in ("vv", "vs", "vl") else (lv[0] if mode == "sv" else list(lv))
            R = Vector(rv) if mode in ("vv", "sv", "lv") else (rv[0] if mode == "vs" else list(rv))
            fn = rnd.choice([operator.add, operator.sub, operator.mul, operator.floordiv, operator.mod])
            st, r, ex = attempt(lambda: list(fn(L, R)))
            evs.append({"id": eid, "op": "elem", "mode": mode, "la": la, "lb": lb, "na": na, "nb": nb, "ok": st == "ok",
                        "nonepos": [i + 1 for i, x in enumerate(r) if x is None] if st == "ok" else [], "len": len(r) if st == "ok" else 0})
        else:
            vals = [rnd.choice([-1, 0, 1, 2, 3]) for _ in range(ln)]
            if not vals or all(x == -1 for x in vals):
                continue
            v = Vector([None if x == -1 else x for x in vals])
            back = lambda xs: [-1 if x is None else x for x in xs]      # noqa: E731
            evs.append({"id": eid, "op": "na", "vals": vals, "isna": list(v.isna()), "dropna": back(v.dropna()), "fill": back(v.fillna(7))})
    with open(out_path, "w") as f:
        for e in evs:
            f.write(json.dumps(e) + "\n")


def fplaws(out_path):
    """C16 on values: fingerprint() is a function of contents only (equal lists -> equal fingerprints,
    however they were built), element order matters, and distinct small lists get distinct fingerprints."""
    F, ex = Fails(), 0
    dom = [None, 0, 1, 2.5, "a"]
    seen = {}
    for n in range(0, 4):
        for vals in itertools.product(dom, repeat=n):
            vals = list(vals)
            if n == 0:
                continue
            a = Vector(list(vals))
            b = Vector(iter(vals), name="other name")
            c = Vector(list(reversed(vals)))[::-1]
            ex += 1
            fa = a.fingerprint()
            if fa != b.fingerprint() or fa != c.fingerprint() or fa != a.copy().fingerprint():
                F.add("fp_value", {"values": repr(vals)}, "equal contents, different fingerprints", "equal")
            # a single changed element, or the same elements in another order, must change the fingerprint
            # (lists of different length are never compared: a write never changes the length)
            for other, fo in seen.get(n, []):
                diff = [i for i in range(n) if not A.same_value(other[i], vals[i])]
                perm = sorted(map(repr, other)) == sorted(map(repr, vals))
                if diff and (len(diff) == 1 or perm) and fo == fa:
                    F.add("fp_order", {"values": repr(vals), "other": repr(other)}, "different contents, same fingerprint", "different")
            seen.setdefault(n, []).append((vals, fa))
    # "a write that changes any element to an unequal value (other than pairs Python's own hash() cannot
    # tell apart) changes the fingerprint": every pair of special values of one kind, written through every
    # path, at first / last position; pairs with equal hash() are outside the claim and skipped
    import math
    from datetime import date as _d
    inf = float("inf")
    groups = {"float": [0.5, 2.5, -0.0, inf, -inf, float("nan"), -1.0, -2.0, 1e300, None],
              "int": [0, 1, -1, -2, -3, 2, 3, 2 ** 61 - 1, 2 ** 61, 10 ** 30, -(10 ** 30), None],
              "complex": [1j, -1j, 3 + 4j, -3 - 4j, 3 - 4j, 0j, None],
              "str": ["a", "", "b", "A", " a", None],
              "bool": [True, False, None],
              "date": [_d(2020, 1, 1), _d(2020, 1, 2), _d(1, 1, 1), None],
              # object columns: unhashable cells are told apart by their contents, recursively
              "object": [{"a": 3, "b": 4}, {"a": 3, "b": 40}, {"a": 3}, {"b": 4, "a": 3, "c": None}, [1, 2], [1, 3], [1, [2, {"k": 1}]], [1, [2, {"k": 2}]],
                         _d(2024, 1, 1), __import__("datetime").datetime(2024, 1, 1), __import__("datetime").datetime(2024, 1, 1, 0, 0, 1),
                         (1, 2), (9, 2), (1, (2, 3)), (1, (5, 3)), [9, 2], [[7, 1], 2], [[8, 1], 2], {1, 2}, {1, 3}, "x", None]}

    def unequal(x, y):
        if x is None or y is None:
            return (x is None) != (y is None)
        if isinstance(x, (dict, list, set, tuple)) or isinstance(y, (dict, list, set, tuple)):
            return type(x) is type(y) and x != y          # containers of different type with equal items are not compared
        if isinstance(x, float) and isinstance(y, float) and math.isnan(x) and math.isnan(y):
            return False
        return x != y and hash(x) != hash(y)
    for kind, vals in groups.items():
        filler = next(v for v in vals if v is not None)
        for x, y in itertools.permutations(vals, 2):
            if not unequal(x, y):
                continue
            for pos in (0, 2):
                base = [filler, filler, filler]
                base[pos] = x
                want = list(base)
                want[pos] = y
                paths = {
                    "element": lambda v: v.__setitem__(pos, y),
                    "slice": lambda v: v.__setitem__(slice(pos, pos + 1), [y]),
                    "mask": lambda v: v.__setitem__([i == pos for i in range(3)], y),
                    "index-list": lambda v: v.__setitem__([pos], [y]),
                }
                for pname, write in paths.items():
                    if kind == "object" and pname == "mask":
                        continue               # an iterable value under a mask key is a sequence of values, not one cell
                    for memo in (True, False):
                        v = Vector(list(base))
                        fp0 = v.fingerprint() if memo else Vector(list(base)).fingerprint()
                        st, _, e = attempt(lambda: write(v))
                        ex += 1
                        if st != "ok":
                            continue
                        case = {"kind": kind, "from": repr(x), "to": repr(y), "position": pos, "path": pname, "memoised_before": memo}
                        if v.fingerprint() != Vector(list(want)).fingerprint():
                            F.add("fp_value", case, "fingerprint after the write differs from a fresh vector's", "equal")
                        if v.fingerprint() == fp0:
                            F.add("fp_order", case, "the write did not change the fingerprint", "a different fingerprint")
                # through a table: cell assignment, live column view, attribute replacement
                for pname in ("cell", "view", "attribute"):
                    if kind == "object" and pname == "cell":
                        continue               # t[i, 'x'] = <iterable> is a row / region assignment
                    t = Table({"x": list(base), "k": [1, 2, 3]})
                    ft0 = t.fingerprint()
                    if pname == "cell":
                        st, _, e = attempt(lambda: t.__setitem__((pos, "x"), y))
                    elif pname == "view":
                        st, _, e = attempt(lambda: t["x"].__setitem__(pos, y))
                    else:
                        st, _, e = attempt(lambda: setattr(t, "x", list(want)))
                    ex += 1
                    if st != "ok":
                        continue
                    case = {"kind": kind, "from": repr(x), "to": repr(y), "position": pos, "path": "table " + pname}
                    if t.fingerprint() != Table({"x": list(want), "k": [1, 2, 3]}).fingerprint():
                        F.add("fp_value", case, "table fingerprint after the write differs from a fresh table's", "equal")
                    if t.fingerprint() == ft0:
                        F.add("fp_order", case, "the write did not change the table's fingerprint", "a different fingerprint")
            # element order matters: [x, y, f] vs [y, x, f]
            a, b = Vector([x, y, filler]), Vector([y, x, filler])
            ex += 1
            if a.fingerprint() == b.fingerprint():
                F.add("fp_order", {"kind": kind, "values": repr([x, y, filler])}, "two unequal elements swapped, same fingerprint", "different")
    # tables: column order and cell position matter; equal tables built differently agree
    for cols in itertools.product([[0, 1], [1, 0], [0, 0]], repeat=2):
        t1 = Table({"x": list(cols[0]), "y": list(cols[1])})
        t2 = Table([Vector(list(cols[0]), name="x"), Vector(list(cols[1]), name="y")])
        ex += 1
        if t1.fingerprint() != t2.fingerprint():
            F.add("fp_value", {"table": cols}, "equal tables, different fingerprints", "equal")
        sw = Table({"x": list(cols[1]), "y": list(cols[0])})
        if cols[0] != cols[1] and sw.fingerprint() == t1.fingerprint():
            F.add("fp_order", {"table": cols}, "columns swapped, same fingerprint", "different")
    json.dump({"executed": ex, "failures": F.items, "per_clause": F.per, "skipped": F.skipped, "truth": [], "rule": [], "writeback": []},
              open(out_path, "w"), default=str)


def casts(out_path):
    """cast / fillna / dropna results for the C03 monitor (the statement names them)"""
    F, mon, ex = Fails(), Monitor(), 0
    srcs = {"int": [1, None, 3], "float": [1.0, 2.5, None], "str": ["1", "22", None], "bool": [True, False, None],
            "intfull": [4, 5, 6], "datestr": ["2020-01-02", None, "2021-03-04"]}
    targets = [int, float, str, bool, complex, date]
    for sname, vals in srcs.items():
        for nonefree in (False, True):
            data = [x for x in vals if x is not None] if nonefree else list(vals)
            v = Vector(list(data), name="c")
            for tgt in targets:
                st, r, e = attempt(lambda: v.cast(tgt))
                ex += 1
                if st != "ok":
                    continue               # Python cannot convert these elements: outside the claim
                exp = [None if x is None else (date.fromisoformat(x) if tgt is date and isinstance(x, str) else tgt(x)) for x in data]
                if not views_equal(list(r), exp):
                    F.add("cast_values", {"source": sname, "target": tgt.__name__}, [repr(x) for x in r], [repr(x) for x in exp])
                mon.see(r, "cast(" + tgt.__name__ + ")")
            for fv in (0, 1.5, "z", True):
                st, r, e = attempt(lambda: v.fillna(fv))
                ex += 1
                if st == "ok":
                    mon.see(r, "fillna(" + type(fv).__name__ + ")")
            st, r, e = attempt(lambda: v.dropna())
            if st == "ok":
                mon.see(r, "dropna()")
            st, r, e = attempt(lambda: v.to_object())
            if st == "ok":
                mon.see(r, "to_object()")
    # values of numeric classes that are not built in (Fraction, Decimal): such a vector is not a float / int vector
    from fractions import Fraction
    from decimal import Decimal
    for vals in ([Fraction(1, 2), Fraction(3, 4)], [Fraction(1, 2), None], [Decimal("1.5"), Decimal("2")], [Fraction(1, 2), 1], [1, Fraction(1, 2)], [Decimal("1.5"), 2.5]):
        st, v, e = attempt(lambda: Vector(list(vals)))
        ex += 1
        if st != "ok":
            continue
        mon.see(v, "Vector of " + type(vals[0]).__name__)
        for label, fn in (("v + v", lambda: v + v), ("v * 2", lambda: v * 2), ("v << [1]", lambda: v << [1]), ("fillna", lambda: v.fillna(Fraction(0))), ("v[0:1]", lambda: v[0:1])):
            st, r, e = attempt(fn)
            if st == "ok" and isinstance(r, Vector):
                mon.see(r, label + " on a vector of " + type(vals[0]).__name__)
    json.dump({"executed": ex, "failures": F.items, "per_clause": F.per, "skipped": F.skipped, **mon.dump()}, open(out_path, "w"), default=str)


def main():
    if sys.argv[1] == "fplaws":
        return fplaws(sys.argv[2])
    if sys.argv[1] == "casts":
        return casts(sys.argv[2])
    if sys.argv[1] == "record":
        return record(int(sys.argv[2]), int(sys.argv[3]), sys.argv[4])
    suite, cases_path, out_path = sys.argv[2], sys.argv[3], sys.argv[4]
    cases = json.load(open(cases_path))
    F, mon = Fails(), Monitor()
    if suite in ("slice", "mask", "int"):
        ex = replay_index(cases, F, mon)
    elif suite == "elem":
        ex = replay_elem(cases, F, mon)
    elif suite == "na":
        ex = replay_na(cases, F, mon)
    elif suite == "assign":
        ex = replay_assign(cases, F, mon)
    elif suite == "atype":
        ex = replay_atype(cases, F, mon)
    else:
        raise SystemExit("unknown suite " + suite)
    json.dump({"executed": ex, "failures": F.items, "per_clause": F.per, "skipped": F.skipped, **mon.dump()},
              open(out_path, "w"), default=str)


if __name__ == "__main__":
    main()
