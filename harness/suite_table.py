"""SerifTable suite: selection (C07), table arithmetic (C05, C18), structure (C02), table assignment (C08),
attribute broadcasting (C05)."""
import json
import os

import engine


def _cfg(suite):
    return f"""INIT Init
NEXT Next
CONSTANTS
  Devs = {{}}
  Suite = "{suite}"
INVARIANT Emit
CHECK_DEADLOCK FALSE
"""


def _collect(rep, out, suite, clauses):
    rep.gen_cases += out["executed"]
    for k, v in out.get("skipped", {}).items():
        rep.skip(k, v)
    for f in out["failures"]:
        if f["clause"] in clauses:
            rep.fail(f["clause"], suite, {k: v for k, v in f.items() if k not in ("clause", "observed", "expected")},
                     f["observed"], f["expected"])
    return out


def gen(rep, tier, suites, clauses):
    sc = engine.scratch()
    mon = {"truth": [], "rule": [], "writeback": []}
    for s in suites:
        r = engine.run_tlc("Gen_Table", _cfg(s), timeout=1200)
        rep.add_mc(r, f"Gen_Table suite {s}")
        cases = [dict(c, _n=i) for i, (_, c) in enumerate(r.prints)]
        cp, op = os.path.join(sc, f"table_{s}.json"), os.path.join(sc, f"table_{s}_out.json")
        json.dump(cases, open(cp, "w"))
        rep.sample({"suite": "table." + s, "case": cases[len(cases) // 2]})
        engine.run_driver("drv_table.py", ["replay", s, cp, op], timeout=1800)
        out = _collect(rep, json.load(open(op)), "table." + s, clauses)
        mon["truth"] += out.get("truth", [])
        mon["rule"] += out.get("rule", [])
        mon["writeback"] += out.get("writeback", [])
    return mon


def enumerated(rep, which, clauses):
    """python-enumerated families whose expectation is a plain composition of spec rules"""
    sc = engine.scratch()
    op = os.path.join(sc, f"table_{which}_out.json")
    engine.run_driver("drv_table.py", [which, op], timeout=1800)
    out = _collect(rep, json.load(open(op)), "table." + which, clauses)
    return {"truth": out.get("truth", []), "rule": out.get("rule", []), "writeback": out.get("writeback", [])}
