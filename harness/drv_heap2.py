"""Random histories of the real library, recorded for Trace_Heap (code -> spec).

  record <seed> <nhist> <maxlen> <out.ndjson>

The driver keeps only what a user program would keep (held vectors, tables, tuples) plus
weak references to every object it has seen, so liveness is the interpreter's, not ours.
Spec identities are assigned with the spec's canonical rule (lowest free id), so the
arguments of every event are in spec terms; the observed projection is read from the
implementation after the call.
"""
import gc
import json
import random
import sys
import warnings
import weakref

warnings.simplefilter("ignore")
from serif import Vector, Table, AliasError                    # noqa: E402
from serif.alias_tracker import _ALIAS_TRACKER                 # noqa: E402
from drv_heap import conc, conc_vals, _same, NONE_V, FLOAT_V   # noqa: E402

NOBJ, NTAB, NSID = 6, 2, 12


def absval(x):
    if x is None:
        return NONE_V
    if x == 5.5:
        return FLOAT_V
    return int(x)


class Hist:
    def __init__(self, rnd):
        self.rnd = rnd
        self.held = {}        # obj id -> Vector (program's references)
        self.tab = {}         # tab id -> Table
        self.tup = {}         # sid -> tuple (program's references)
        self.wr = {}          # obj id -> weakref (everything ever seen and not known dead)
        self.sid_of = {}      # id(tuple) -> sid, for tuples in use
        self.cols = {}        # tab id -> [obj ids]
        _ALIAS_TRACKER._registry.clear()

    # ---------------- liveness and identities (observed, not assumed) ----------------
    def live_objs(self):
        out = {}
        for o, r in list(self.wr.items()):
            v = r()
            if v is None:
                del self.wr[o]
            else:
                out[o] = v
        return out

    def refresh(self):
        """recompute which objects are alive and which tuple identities are in use"""
        live = self.live_objs()
        inuse = {}
        for o, v in live.items():
            inuse[id(v._underlying)] = v._underlying
        for t, tb in self.tab.items():
            inuse[id(tb._underlying)] = tb._underlying
        for s, tp in self.tup.items():
            inuse[id(tp)] = tp
        for k in list(self.sid_of):
            if k not in inuse:
                del self.sid_of[k]
        del live
        return inuse

    def free_sids(self):
        used = set(self.sid_of.values())
        return [s for s in range(1, NSID + 1) if s not in used]

    def dead_objs(self):
        live = set(self.live_objs())
        return [o for o in range(1, NOBJ + 1) if o not in live]

    def dead_tabs(self):
        return [t for t in range(101, 101 + NTAB) if t not in self.tab]

    def obj(self, o):
        r = self.wr.get(o)
        return r() if r else None

    def see(self, o, v):
        self.wr[o] = weakref.ref(v)

    # ---------------- observation ----------------
    def observe(self):
        self.refresh()
        live = self.live_objs()
        ident = {id(v): o for o, v in live.items()}
        for t, tb in self.tab.items():
            ident[id(tb)] = t
        store = [0] * NOBJ
        heap = [[] for _ in range(NSID)]
        kind = ["int"] * NOBJ
        nullable = [False] * NOBJ
        name = ["-"] * NOBJ
        fp_ok = True
        for o, v in live.items():
            s = self.sid_of.get(id(v._underlying), 0)
            store[o - 1] = s
            if s:
                heap[s - 1] = [absval(x) for x in v]
            sch = v.schema()
            if sch is not None:
                kind[o - 1] = sch.kind.__name__
                nullable[o - 1] = bool(sch.nullable)
            name[o - 1] = "-" if v.name is None else v.name
        for s, tp in self.tup.items():
            heap[s - 1] = [absval(x) for x in tp]
        cols = [[] for _ in range(NTAB)]
        tlen = [0] * NTAB
        rect = [True] * NTAB
        rows_ok = [True] * NTAB
        for t, tb in self.tab.items():
            k = t - 101
            cols[k] = [ident.get(id(c), 0) for c in tb.cols()]
            tlen[k] = len(tb)
            rect[k] = all(len(c) == len(tb) for c in tb.cols()) and tb.shape == (len(tb), len(tb.cols()))
            try:
                exp = [[list(c)[r] for c in tb.cols()] for r in range(len(tb))]
                got_i = [list(tb[r]) for r in range(len(tb))]
                got_it = [list(r) for r in tb]
                rows_ok[k] = (len(got_i) == len(exp) and len(got_it) == len(exp)
                              and all(all(_same(a, b) for a, b in zip(x, y)) for x, y in zip(got_i, exp))
                              and all(all(_same(a, b) for a, b in zip(x, y)) for x, y in zip(got_it, exp)))
            except Exception:      # noqa: BLE001
                rows_ok[k] = False
        reg = [[] for _ in range(NSID)]
        stale = []
        for key, refs in list(_ALIAS_TRACKER._registry.items()):
            members = [ident.get(id(m), 99) for m in (r() for r in refs) if m is not None]
            if not members:
                continue
            s = self.sid_of.get(key)
            if s is None:
                stale += members
            else:
                reg[s - 1] += sorted(members)
        livelist = sorted(list(live) + list(self.tab))
        del live
        return {"live": livelist, "store": store, "heap": heap, "kind": kind, "nullable": nullable, "name": name,
                "cols": cols, "tlen": tlen, "rect": rect, "rows_ok": rows_ok, "reg": reg, "reg_stale": sorted(stale),
                "fp_ok": fp_ok}

    # ---------------- actions ----------------
    def candidates(self):
        live = self.live_objs()
        vecs = sorted(live)
        c = []
        free_s, dead_o, dead_t = self.free_sids(), self.dead_objs(), self.dead_tabs()
        if dead_o and free_s:
            c += ["NewVec"] * 3 + (["Copy"] * 2 if vecs else [])
        if dead_o and vecs and free_s:
            c += ["ConcatEmpty"]
        if dead_o and self.tup:
            c += ["ShareVec"] * 2
        if self.tup:
            c += ["DropTuple"]
        if self.held:
            c += ["Drop"] * 2
        if vecs and free_s:
            c += ["Write"] * 6
        if vecs:
            c += ["ReadFpV"] * 2 + ["Rename"]
        if vecs and dead_t and len(free_s) >= 3 and len(dead_o) >= 2:
            c += ["NewTable"] * 3
        if self.tab:
            c += ["ColView", "DropTable", "ReadFpT", "ReadFpT", "RenameColumn", "Lookup", "Lookup"]
            if len(free_s) >= 2:
                c += ["WriteRow"] * 2
            if vecs and len(free_s) >= 2 and dead_o:
                c += ["SetAttr"] * 2
        del live
        return c

    def names(self, t):
        return [self.obj(o).name for o in self.cols[t]]

    def accessor(self, t, i):
        names = self.names(t)
        nm = names[i]
        if nm is None:
            return f"col{i}_"
        if nm in names[:i]:
            return f"{nm}__{i}"
        return nm

    def column_pos(self, o):
        for t, cs in self.cols.items():
            if o in cs:
                return t, cs.index(o)
        return None

    def do(self, act):
        rnd = self.rnd
        ev = {"a": act, "x": 0, "y": 0, "z": 0, "w": 0, "vs": [], "nm": "-", "how": "-", "res": "Ok"}
        self.refresh()
        free_s, dead_o = self.free_sids(), self.dead_objs()
        live = sorted(self.live_objs())
        if act == "NewVec":
            n = rnd.choice([1, 1, 2, 2, 3])
            vals = [rnd.choice([0, 1, 1, 0, NONE_V, FLOAT_V]) if rnd.random() < .3 else rnd.choice([0, 1]) for _ in range(n)]
            ev["vs"] = vals
            cv = conc_vals(vals)
            o = dead_o[0]
            if rnd.random() < .35:
                tp = tuple(cv)
                self.tup[free_s[0]] = tp
                self.sid_of[id(tp)] = free_s[0]
                v = Vector(tp)
                ev["z"] = 1
            else:
                v = Vector(cv)
                self.sid_of[id(v._underlying)] = free_s[0]
            self.held[o] = v
            self.see(o, v)
        elif act == "ShareVec":
            s = rnd.choice(sorted(self.tup))
            ev["y"] = s
            o = dead_o[0]
            v = Vector(self.tup[s])
            self.held[o] = v
            self.see(o, v)
        elif act == "ConcatEmpty":
            src = rnd.choice(live)
            sv = self.obj(src)
            if len(sv) == 0:
                return None
            ev["x"] = src
            o = dead_o[0]
            v = (sv << []) if rnd.random() < 0.5 else (sv << ())        # ([] << sv re-infers the dtype from the values: another operation)
            if v._underlying is not sv._underlying:
                self.sid_of[id(v._underlying)] = free_s[0]      # an operation result lives on fresh storage
            self.held[o] = v
            self.see(o, v)
            del sv
        elif act == "DropTuple":
            s = rnd.choice(sorted(self.tup))
            ev["y"] = s
            del self.tup[s]
        elif act == "Copy":
            src = rnd.choice(live)
            ev["x"] = src
            sv = self.obj(src)
            k = rnd.randint(0, 3)
            v = [lambda: sv.copy(), lambda: sv[:], lambda: sv[[True] * len(sv)], lambda: sv[0:len(sv)]][k]()
            o = dead_o[0]
            self.sid_of[id(v._underlying)] = free_s[0]
            self.held[o] = v
            self.see(o, v)
            del sv
        elif act == "Drop":
            o = rnd.choice(sorted(self.held))
            ev["x"] = o
            del self.held[o]
        elif act == "Write":
            o = rnd.choice(live)
            v = self.obj(o)
            i = rnd.randrange(len(v))
            x = rnd.choice([0, 1, 0, 1, NONE_V, FLOAT_V])
            ev.update(x=o, z=i + 1, w=x)
            kind = "float" if (v.schema() is not None and v.schema().kind is float) else "int"
            val = conc(x, kind)
            pos = self.column_pos(o)
            k = rnd.randint(0, 8 if pos and pos[0] in self.tab else 5)
            old_id = id(v._underlying)
            try:
                if k == 0:
                    v[i] = val
                elif k == 1:
                    v[i:i + 1] = [val]
                elif k == 2:
                    v[[j == i for j in range(len(v))]] = val
                elif k == 3:
                    v[[i]] = val
                elif k == 4:
                    v[i - len(v)] = val
                elif k == 5:
                    v[Vector([i])] = [val]
                elif k == 6:
                    self.tab[pos[0]][i, pos[1]] = val
                elif k == 7:
                    self.tab[pos[0]][i, self.accessor(*pos)] = val
                else:
                    self.tab[pos[0]].cols()[pos[1]][i] = val
                if id(v._underlying) != old_id or True:
                    # the new tuple takes the lowest identity that was free before the call
                    self.sid_of.pop(id(v._underlying), None) if self.sid_of.get(id(v._underlying)) and False else None
                    new_id = id(v._underlying)
                    still_used = any(id(p._underlying) == old_id for q, p in self.live_objs().items() if q != o) \
                        or any(id(tp) == old_id for tp in self.tup.values())
                    if new_id != old_id or not still_used:
                        if not still_used:
                            self.sid_of.pop(old_id, None)
                        self.sid_of[new_id] = free_s[0]
            except AliasError:
                ev["res"] = "Refused"
            except Exception as ex:     # noqa: BLE001
                ev["res"] = "Err:" + type(ex).__name__
            del v
        elif act == "WriteRow":
            t = rnd.choice(sorted(self.tab))
            tb = self.tab[t]
            if len(tb) == 0 or len(free_s) < len(self.cols[t]):
                return None
            r = rnd.randrange(len(tb))
            xs = [rnd.choice([0, 1]) for _ in self.cols[t]]
            ev.update(x=t, y=r + 1, vs=xs)
            cols = [self.obj(o) for o in self.cols[t]]
            vals = [conc(x, "float" if (c_.schema() is not None and c_.schema().kind is float) else "int") for x, c_ in zip(xs, cols)]
            old_ids = [id(c_._underlying) for c_ in cols]
            try:
                if rnd.random() < 0.5:
                    tb[r] = list(vals)
                else:
                    tb[r, :] = list(vals)
                for k_, c_ in enumerate(cols):
                    still = any(id(p._underlying) == old_ids[k_] for q, p in self.live_objs().items()) \
                        or any(id(tp) == old_ids[k_] for tp in self.tup.values())
                    if not still:
                        self.sid_of.pop(old_ids[k_], None)
                for k_, c_ in enumerate(cols):
                    self.sid_of[id(c_._underlying)] = free_s[k_]
            except AliasError:
                ev["res"] = "Refused"
            del cols
        elif act == "ReadFpV":
            o = rnd.choice(live)
            ev["x"] = o
            v = self.obj(o)
            had = v._fp is not None
            ok = v.fingerprint() == Vector(list(v)).fingerprint()
            ev["res"] = ("OkCached" if had else "Ok") if ok else "FpWrong"
            del v
        elif act == "Rename":
            o = rnd.choice(live)
            nm = rnd.choice(["a", "b", "-"])
            ev.update(x=o, nm=nm)
            self.obj(o).name = None if nm == "-" else nm
        elif act == "NewTable":
            n = rnd.choice([1, 2, 2])
            srcs = [rnd.choice(live) for _ in range(n)]
            ev["vs"] = srcs
            objs = [self.obj(o) for o in srcs]
            lens = {len(v) for v in objs}
            t = self.dead_tabs()[0]
            same_kind = len({(v.schema().kind if v.schema() is not None else None) for v in objs}) == 1
            form = rnd.randint(0, 2 if (n == 2 and same_kind) else 1)     # `>>` refuses vectors of different typesafe kinds
            try:
                r = [lambda: Table(list(objs)), lambda: Vector(list(objs)), lambda: objs[0] >> objs[1]][form]()
            except Exception:          # noqa: BLE001
                r = None
            del objs
            if not isinstance(r, Table):
                ev["res"] = "Err"
            else:
                self.tab[t] = r
                newo = dead_o[:n]
                self.cols[t] = newo
                for i, c in enumerate(r.cols()):
                    self.see(newo[i], c)
                    self.sid_of[id(c._underlying)] = free_s[i]
                self.sid_of[id(r._underlying)] = free_s[n]
        elif act == "SetAttr":
            t = rnd.choice(sorted(self.tab))
            i = rnd.randrange(len(self.cols[t]))
            d = rnd.choice(live)
            ev.update(x=t, y=i + 1, z=d)
            tb = self.tab[t]
            try:
                setattr(tb, self.accessor(t, i), self.obj(d))
                c = tb.cols()[i]
                self.cols[t][i] = dead_o[0]
                self.see(dead_o[0], c)
                self.sid_of[id(c._underlying)] = free_s[0]
                self.sid_of[id(tb._underlying)] = free_s[1]
                del c
            except (ValueError, AttributeError):
                ev["res"] = "Err"
        elif act == "ColView":
            t = rnd.choice(sorted(self.tab))
            i = rnd.randrange(len(self.cols[t]))
            ev.update(x=t, y=i + 1)
            self.held[self.cols[t][i]] = getattr(self.tab[t], self.accessor(t, i))
        elif act == "DropTable":
            t = rnd.choice(sorted(self.tab))
            ev["x"] = t
            del self.tab[t]
            del self.cols[t]
        elif act == "ReadFpT":
            t = rnd.choice(sorted(self.tab))
            ev["x"] = t
            tb = self.tab[t]
            ref = Table([Vector(list(c), name=c.name) for c in tb.cols()])
            ev["res"] = "Ok" if tb.fingerprint() == ref.fingerprint() else "FpWrong"
            del ref
        elif act == "RenameColumn":
            t = rnd.choice(sorted(self.tab))
            names = self.names(t)
            cand = [i for i, nm in enumerate(names) if nm is not None and names.index(nm) == i]
            if not cand:
                return None
            i = rnd.choice(cand)
            nm = rnd.choice([x for x in ("a", "b") if x != names[i]])
            ev.update(x=t, y=i + 1, nm=nm)
            self.tab[t].rename_column(names[i], nm)
        elif act == "Lookup":
            t = rnd.choice(sorted(self.tab))
            i = rnd.randrange(len(self.cols[t]))
            acc = self.accessor(t, i)
            how = rnd.choice(["getattr", "row"])
            ev.update(x=t, nm=acc, how=how)
            tb = self.tab[t]
            cols = tb.cols()
            try:
                if how == "getattr":
                    r = getattr(tb, acc)
                    hit = [k for k, c in enumerate(cols) if c is r]
                    ev["res"] = f"Col{hit[0] + 1}" if hit else "NotAColumn"
                else:
                    if len(tb) == 0:
                        return None
                    r = getattr(tb[0], acc)
                    ev["res"] = f"Col{i + 1}" if _same(list(cols[i])[0], r) else "WrongCell"
            except AttributeError:
                ev["res"] = "Missing"
        return ev


def record(seed, nhist, maxlen, out_path):
    rnd = random.Random(seed)
    with open(out_path, "w") as f:
        for tid in range(1, nhist + 1):
            h = Hist(rnd)
            n = rnd.randint(3, maxlen)
            i = 0
            while i < n:
                cands = h.candidates()
                act = rnd.choice(cands)
                try:
                    ev = h.do(act)
                    if ev is None:
                        continue
                    if rnd.random() < 0.1:
                        gc.collect()
                    post = h.observe()
                except Exception as ex:      # noqa: BLE001
                    # the library raised where the recorder expects a result or a refusal (or its state cannot be read any more):
                    # that is an observation, not a harness failure - the history ends here and the suite reports it
                    f.write(json.dumps({"a": "CRASH", "tid": tid, "i": i + 1, "act": act, "error": type(ex).__name__ + ": " + str(ex)[:160]}) + "\n")
                    break
                i += 1
                ev["tid"], ev["i"] = tid, i
                ev["post"] = post
                f.write(json.dumps(ev) + "\n")
            f.write(json.dumps({"a": "EOT", "tid": tid, "i": 0}) + "\n")
            h.held.clear()
            h.tab.clear()
            h.tup.clear()


def main(argv):
    if argv[1] == "record":
        record(int(argv[2]), int(argv[3]), int(argv[4]), argv[5])
    else:
        raise SystemExit("unknown command")
