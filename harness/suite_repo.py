"""The repository's own test-suite as a source of executions: the 490 tests are run under the
external recorder plugin (harness/recorder.py, no change to the repository) and every join,
sort, aggregation and window they perform - and the dtype of every vector they build - is
judged by the same Trace_* specifications as our own drivers' executions."""
import json
import os
import subprocess

import engine
import suite_join
import suite_sort
import suite_group
import suite_types

_cache = {}


def record():
    if "evs" in _cache:
        return _cache["evs"]
    sc = engine.scratch()
    out = os.path.join(sc, "repo_tests.ndjson")
    e = dict(os.environ)
    e.update({"SERIF_VERIF": "1", "SERIF_VERIF_OUT": out, "PYTHONHASHSEED": "0",
              "PYTHONPATH": os.path.join(engine.REPO, "src") + os.pathsep + os.path.join(engine.VERIF, "harness")})
    p = subprocess.run([engine.PY, "-m", "pytest", "-q", "-p", "no:cacheprovider", "-p", "recorder", "-x", "-q"],
                       cwd=engine.REPO, env=e, stdout=subprocess.PIPE, stderr=subprocess.STDOUT, text=True, timeout=900)
    tail = p.stdout.strip().splitlines()[-1] if p.stdout.strip() else ""
    if not os.path.exists(out):
        raise engine.MachineryError("recorder produced no trace: " + p.stdout[-800:])
    evs = engine.read_ndjson(out)
    _cache["evs"] = (evs, tail, p.returncode)
    return _cache["evs"]


def _tlc(rep, module, cfg, evs, keys, suite, clauses):
    if not evs:
        return
    sc = engine.scratch()
    path = os.path.join(sc, suite + ".ndjson")
    for i, e in enumerate(evs):
        e["id"] = i + 1
    engine.write_ndjson(path, evs, keys)
    r = engine.run_tlc(module, cfg, env={"TRACE_FILE": path}, workers=1, tags=("VERDICT",), timeout=900)
    v = r.prints[0][1]
    if v["n"] != len(evs):
        raise engine.MachineryError(f"{module} consumed {v['n']} of {len(evs)} repository-test events")
    rep.trace_events += len(evs)
    rep.extra.setdefault("repo_test_events", {})[suite] = len(evs)
    for eid, clause in v["bad"]:
        if clause in clauses:
            rep.fail(clause, suite, evs[eid - 1], "recorded from the repository's tests", "spec verdict: " + clause, direction="trace")


def validate(rep, what, clauses):
    """what: subset of {"join", "sort", "group", "truth", "getitem", "setitem"}"""
    evs, tail, rc = record()
    rep.notes.append(f"repository tests under the recorder: {tail}")
    use = [e for e in evs if not e.get("skipped")]
    for e in evs:
        if e.get("skipped"):
            rep.skip("repo-tests: " + e["skipped"])
    if "join" in what:
        _tlc(rep, "Trace_Join", "Trace_Join.cfg", [e for e in use if e["op"] == "join"], suite_join.SPEC_KEYS, "repo.join", clauses)
    if "sort" in what:
        _tlc(rep, "Trace_Sort", "Trace_Sort.cfg", [e for e in use if e["op"] == "tsort_rows"],
             ["id", "op", "K", "rev", "naLast", "inrows", "outrows"], "repo.sort", clauses)
    if "group" in what:
        _tlc(rep, "Trace_Group", "Trace_Group.cfg", [e for e in use if e["op"] in ("aggregate", "window")],
             suite_group.SPEC_KEYS, "repo.group", clauses)
    if "getitem" in what:
        _tlc(rep, "Trace_Vector", "Trace_Vector.cfg", [e for e in use if e["op"] == "rgetitem"],
             ["id", "op", "n", "key", "vals", "res", "ok"], "repo.getitem", clauses)
    if "setitem" in what:
        _tlc(rep, "Trace_Vector", "Trace_Vector.cfg", [e for e in use if e["op"] == "rsetitem"],
             ["id", "op", "n", "key", "before", "value", "after", "ok"], "repo.setitem", clauses)
    if "truth" in what:
        tr = [e for e in evs if e["op"] == "_truth"]
        if tr:
            suite_types.validate(rep, tr[0]["events"], "repo.truth", clauses)
