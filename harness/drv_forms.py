"""Argument-form independence (metamorphic binding of the spec-checked canonical forms to every
other way the API accepts the same argument).

The spec-driven suites decide the CANONICAL form of every operation (vector operands, list
keys, columns named by their stored name ...).  The property statements quantify over "all
key forms", "vector, scalar or plain sequence", "keys given by name or by vector" - so for
every other form the rule checked here is:

    the call is rejected (any exception, nothing changed)   OR
    it gives exactly what the canonical form gives (values, dtype, name, column names).

usage: drv_forms.py <out.json>       (PYTHONPATH=<repo>/src)
"""
import itertools
import json
import operator
import sys
from datetime import date

from tabutil import Vector, Table, vec_view, table_view, views_equal, Monitor


class Fails:
    def __init__(self):
        self.items, self.per = [], {}

    def add(self, clause, case, obs, exp):
        self.per[clause] = self.per.get(clause, 0) + 1
        if self.per[clause] <= 25:
            self.items.append({"clause": clause, "case": case, "observed": obs, "expected": exp})


def attempt(f):
    try:
        return "ok", f(), None
    except Exception as e:      # noqa: BLE001
        return "err", None, e


def view(x):
    if isinstance(x, Table):
        return {"table": table_view(x)}
    if isinstance(x, Vector):
        return {"vector": vec_view(x)}
    return {"value": x}


DATA = {"int": [3, 1, 2], "int?": [3, None, 2], "float": [1.5, 0.5, 2.5], "str": ["b", "a", "c"], "bool": [True, False, True],
        "date": [date(2020, 1, 2), date(2019, 5, 6), date(2021, 7, 8)]}
BIN = {"add": operator.add, "sub": operator.sub, "mul": operator.mul, "truediv": operator.truediv, "floordiv": operator.floordiv,
       "mod": operator.mod, "pow": operator.pow, "eq": operator.eq, "ne": operator.ne, "lt": operator.lt, "le": operator.le,
       "gt": operator.gt, "ge": operator.ge}


def seq_forms(vals):
    """the same sequence of cells handed over in every sized / unsized way"""
    w = len(vals)
    out = {"tuple": lambda: tuple(vals), "Vector": lambda: Vector(list(vals)), "named Vector": lambda: Vector(list(vals), name="other"),
           "generator": lambda: (x for x in vals), "iter": lambda: iter(list(vals)), "map": lambda: map(lambda x: x, list(vals))}
    if w:
        out["Row"] = lambda: Table([Vector([x], name="r%d" % i) for i, x in enumerate(vals)])[0]
        out["table column"] = lambda: Table({"c": list(vals), "d": list(vals)}).c
    if all(isinstance(x, int) and not isinstance(x, bool) for x in vals) and vals == list(range(vals[0], vals[0] + w)) if vals else False:
        out["range"] = lambda: range(vals[0], vals[0] + w)
    return out


def elementwise(F, mon):
    """C05 / C06 / C07: v op <sequence in any form>, reflected too"""
    ex = 0
    for lk, lv in DATA.items():
        for rk, rv in (("int", [1, 2, 3]), ("int?", [2, None, 1]), ("float", [0.5, 2.0, 1.5]), ("str", ["x", "y", "z"]), ("int1", [4, 5, 6])):
            for n in (0, 1, 3):
                a, b = lv[:n], rv[:n]
                for opname, fn in BIN.items():
                    # outside the claim where Python itself does not define the scalar operation (the library then
                    # answers with implementation-defined fallbacks that differ by form, e.g. dates + [1, 2])
                    try:
                        for x, y in zip(a, b):
                            if x is not None and y is not None:
                                fn(x, y), fn(y, x)
                    except Exception:      # noqa: BLE001
                        continue
                    for side in ("v op seq", "seq op v"):
                        def run(seq):
                            v = Vector(list(a), name="L")
                            return fn(v, seq) if side == "v op seq" else fn(seq, v)
                        st0, r0, e0 = attempt(lambda: run(list(b)))
                        for fname, mk in seq_forms(b).items():
                            if side == "seq op v" and fname in ("Vector", "named Vector", "Row", "table column"):
                                continue          # that is the vector-vector form with the operands swapped
                            st, r, e = attempt(lambda: run(mk()))
                            ex += 1
                            if st != "ok":
                                continue
                            case = {"left": lk, "right": rk, "n": n, "op": opname, "form": fname, "written": side}
                            if not isinstance(r, Vector):
                                if opname in ("eq", "ne") and isinstance(r, bool):
                                    continue      # Python's default identity comparison answered: the library did not handle the form
                                F.add("form_elementwise", case, repr(r), "a vector or a rejection")
                                continue
                            if st0 != "ok":
                                F.add("form_elementwise", case, list(r), "rejected like the list form (" + type(e0).__name__ + ")")
                                continue
                            if not views_equal(list(r), list(r0)):
                                F.add("form_elementwise", case, list(r), list(r0))
                            elif str(r.schema()) != str(r0.schema()):
                                F.add("form_dtype", case, str(r.schema()), str(r0.schema()))
                            mon.see(r, "operand form " + fname, rule=False)
    return ex


def indexing(F, mon):
    """C07 / C08: integer-list and mask keys in every form; assigned values in every form"""
    ex = 0
    for kind, vals in DATA.items():
        for n in (1, 3):
            base = vals[:n]
            keys = {"ints": [0, n - 1, 0][:n + 1], "neg": [-1, -n], "mask": [i % 2 == 0 for i in range(n)], "empty": []}
            for kname, key in keys.items():
                st0, r0, e0 = attempt(lambda: Vector(list(base), name="v")[list(key)])
                kforms = {"Vector": lambda: Vector(list(key)) if key else None, "tuple": lambda: tuple(key),
                          "table column": lambda: Table({"k": list(key), "j": list(key)}).k if key else None}
                for fname, mk in kforms.items():
                    k = mk()
                    if k is None:
                        continue
                    st, r, e = attempt(lambda: Vector(list(base), name="v")[k])
                    ex += 1
                    case = {"kind": kind, "n": n, "key": kname, "form": fname}
                    if st != "ok":
                        continue
                    if fname == "tuple":
                        continue                   # a tuple key is matrix indexing by definition: not the same request
                    if st0 != "ok" or not isinstance(r, Vector) or not views_equal(vec_view(r), vec_view(r0)):
                        F.add("form_index", case, view(r), view(r0) if st0 == "ok" else "rejected like the list form")
                # assignment: v[key] = <values in any form>
                npos = sum(1 for x in key if x) if kname == "mask" else len(key)
                newv = [base[0]] * npos
                if not npos:
                    continue

                def assign(k, value):
                    v = Vector(list(base), name="v")
                    v[k] = value
                    return v
                st0, r0, e0 = attempt(lambda: assign(list(key), list(newv)))
                for kf, mkk in (("list", lambda: list(key)), ("Vector", lambda: Vector(list(key)))):
                    for fname, mk in seq_forms(newv).items():
                        v = Vector(list(base), name="v")
                        before = vec_view(v)
                        st, _, e = attempt(lambda: v.__setitem__(mkk(), mk()))
                        ex += 1
                        case = {"kind": kind, "n": n, "key": kname, "key form": kf, "value form": fname}
                        if st != "ok":
                            if not views_equal(vec_view(v), before):
                                F.add("form_assign_atomic", case, vec_view(v), before)
                            continue
                        if st0 != "ok":
                            F.add("form_assign", case, vec_view(v), "rejected like the list form (" + type(e0).__name__ + ")")
                        elif not views_equal(vec_view(v), vec_view(r0)):
                            F.add("form_assign", case, vec_view(v), vec_view(r0))
    return ex


def relational(F, mon):
    """C12-C14 (and names, C18): key / value columns named by stored name, by vector, by the table's own column object,
    by accessor spelling, singly or in a list / tuple"""
    ex = 0
    t0 = {"Key One": ["b", "a", "b", None, "a"], "k2": [1, 1, 2, 2, 1], "val": [5, None, 7, 1, 3], "w": [1.5, 2.5, 0.5, 4.0, 3.0]}

    def tab():
        return Table({k: list(v) for k, v in t0.items()})

    def specs(t, i, nm):
        col = t.cols()[i]
        out = {"stored name": nm, "column object": col, "equal vector": Vector(list(col), name=nm), "lower": nm.lower(), "upper": nm.upper(),
               "sanitised": nm.lower().replace(" ", "_"), "positional": "col%d_" % (i + 1)}
        return {k: v for k, v in out.items() if isinstance(v, Vector) or _resolves(t, v, col)}

    def _resolves(t, s, col):
        try:
            return t[s] is col
        except Exception:      # noqa: BLE001
            return False
    calls = {
        "sort_by": lambda t, k1, k2, v: t.sort_by([k1, k2], reverse=[False, True]),
        "sort_by one": lambda t, k1, k2, v: t.sort_by(k1),
        "aggregate": lambda t, k1, k2, v: t.aggregate(over=[k1, k2], sum_over=v, count_over=v),
        "aggregate one": lambda t, k1, k2, v: t.aggregate(over=k1, mean_over=[v]),
        "window": lambda t, k1, k2, v: t.window(over=[k1, k2], sum_over=v, max_over=v),
        "window tuple": lambda t, k1, k2, v: t.window(over=(k1,), min_over=(v,)),
        "inner_join": lambda t, k1, k2, v: t.inner_join(Table({"Key One": ["a", "b"], "z": [1, 2]}), k1, "Key One"),
        "join 2 keys": lambda t, k1, k2, v: t.join(Table({"Key One": ["a", "b"], "k2": [1, 2], "z": [1, 2]}), [k1, k2], ["Key One", "k2"]),
    }
    for cname, call in calls.items():
        t = tab()
        st0, r0, e0 = attempt(lambda: call(t, "Key One", "k2", "val"))
        if st0 != "ok":
            F.add("form_" + cname.split()[0].replace("inner_join", "join"), {"call": cname}, "canonical call raised " + type(e0).__name__ + ": " + str(e0)[:80], "a table")
            continue
        for f1, f2, f3 in itertools.product(("stored name", "column object", "equal vector", "lower", "upper", "sanitised", "positional"),
                                            ("stored name", "column object", "equal vector"), ("stored name", "column object", "equal vector", "upper")):
            t = tab()
            s1, s2, s3 = specs(t, 0, "Key One"), specs(t, 1, "k2"), specs(t, 2, "val")
            if f1 not in s1 or f2 not in s2 or f3 not in s3:
                continue
            before = table_view(t)
            st, r, e = attempt(lambda: call(t, s1[f1], s2[f2], s3[f3]))
            ex += 1
            case = {"call": cname, "key 1 given as": f1, "key 2 given as": f2, "value given as": f3}
            if not views_equal(table_view(t), before):
                F.add("operands_unchanged", case, table_view(t), before)
            if st != "ok":
                continue
            if not isinstance(r, Table) or not views_equal(table_view(r), table_view(r0)):
                F.add("form_" + cname.split()[0].replace("inner_join", "join"), case, view(r), view(r0))
    return ex


def main():
    out = sys.argv[1]
    F, mon = Fails(), Monitor()
    ex = elementwise(F, mon) + indexing(F, mon) + relational(F, mon)
    json.dump({"executed": ex, "failures": F.items, "per_clause": F.per, "skipped": {}, **mon.dump()}, open(out, "w"), default=str)


if __name__ == "__main__":
    main()
