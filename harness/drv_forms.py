"""Argument-form independence (metamorphic binding of the spec-checked canonical forms to every
other way the API accepts the same argument).

The spec-driven suites decide the CANONICAL form of every operation (vector operands, list
keys, columns named by their stored name ...).  The property statements quantify over "all
key forms", "vector, scalar or plain sequence", "keys given by name or by vector" - so for
every other form the rule checked here is:

    the call is rejected (any exception, nothing changed)   OR
    it gives exactly what the canonical form gives (values, dtype, name, column names).

usage: drv_forms.py <out.json>       (PYTHONPATH=<repo>/src)
"""
import itertools
import json
import operator
import sys
from datetime import date

from tabutil import Vector, Table, vec_view, table_view, views_equal, Monitor


class Fails:
    def __init__(self):
        self.items, self.per = [], {}

    def add(self, clause, case, obs, exp):
        self.per[clause] = self.per.get(clause, 0) + 1
        if self.per[clause] <= 25:
            self.items.append({"clause": clause, "case": case, "observed": obs, "expected": exp})


def attempt(f):
    try:
        return "ok", f(), None
    except Exception as e:      # noqa: BLE001
        return "err", None, e


def view(x):
    if isinstance(x, Table):
        return {"table": table_view(x)}
    if isinstance(x, Vector):
        return {"vector": vec_view(x)}
    return {"value": x}


DATA = {"int": [3, 1, 2], "int?": [3, None, 2], "float": [1.5, 0.5, 2.5], "str": ["b", "a", "c"], "bool": [True, False, True],
        "date": [date(2020, 1, 2), date(2019, 5, 6), date(2021, 7, 8)]}
BIN = {"add": operator.add, "sub": operator.sub, "mul": operator.mul, "truediv": operator.truediv, "floordiv": operator.floordiv,
       "mod": operator.mod, "pow": operator.pow, "eq": operator.eq, "ne": operator.ne, "lt": operator.lt, "le": operator.le,
       "gt": operator.gt, "ge": operator.ge}


def seq_forms(vals):
    """the same sequence of cells handed over in every sized / unsized way"""
    w = len(vals)
    out = {"tuple": lambda: tuple(vals), "Vector": lambda: Vector(list(vals)), "named Vector": lambda: Vector(list(vals), name="other"),
           "generator": lambda: (x for x in vals), "iter": lambda: iter(list(vals)), "map": lambda: map(lambda x: x, list(vals))}
    if w:
        out["Row"] = lambda: Table([Vector([x], name="r%d" % i) for i, x in enumerate(vals)])[0]
        out["table column"] = lambda: Table({"c": list(vals), "d": list(vals)}).c
    if all(isinstance(x, int) and not isinstance(x, bool) for x in vals) and vals == list(range(vals[0], vals[0] + w)) if vals else False:
        out["range"] = lambda: range(vals[0], vals[0] + w)
    return out


def elementwise(F, mon):
    """C05 / C06 / C07: v op <sequence in any form>, reflected too"""
    ex = 0
    for lk, lv in DATA.items():
        for rk, rv in (("int", [1, 2, 3]), ("int?", [2, None, 1]), ("float", [0.5, 2.0, 1.5]), ("str", ["x", "y", "z"]), ("int1", [4, 5, 6])):
            for n in (0, 1, 3):
                a, b = lv[:n], rv[:n]
                for opname, fn in BIN.items():
                    # outside the claim where Python itself does not define the scalar operation (the library then
                    # answers with implementation-defined fallbacks that differ by form, e.g. dates + [1, 2])
                    try:
                        for x, y in zip(a, b):
                            if x is not None and y is not None:
                                fn(x, y), fn(y, x)
                    except Exception:      # noqa: BLE001
                        continue
                    for side in ("v op seq", "seq op v"):
                        def run(seq):
                            v = Vector(list(a), name="L")
                            return fn(v, seq) if side == "v op seq" else fn(seq, v)
                        st0, r0, e0 = attempt(lambda: run(list(b)))
                        for fname, mk in seq_forms(b).items():
                            if side == "seq op v" and fname in ("Vector", "named Vector", "Row", "table column"):
                                continue          # that is the vector-vector form with the operands swapped
                            st, r, e = attempt(lambda: run(mk()))
                            ex += 1
                            if st != "ok":
                                continue
                            case = {"left": lk, "right": rk, "n": n, "op": opname, "form": fname, "written": side}
                            if not isinstance(r, Vector):
                                if opname in ("eq", "ne") and isinstance(r, bool):
                                    continue      # Python's default identity comparison answered: the library did not handle the form
                                F.add("form_elementwise", case, repr(r), "a vector or a rejection")
                                continue
                            if st0 != "ok":
                                F.add("form_elementwise", case, list(r), "rejected like the list form (" + type(e0).__name__ + ")")
                                continue
                            if not views_equal(list(r), list(r0)):
                                F.add("form_elementwise", case, list(r), list(r0))
                            elif str(r.schema()) != str(r0.schema()):
                                F.add("form_dtype", case, str(r.schema()), str(r0.schema()))
                            mon.see(r, "operand form " + fname, rule=False)
    return ex


def indexing(F, mon):
    """C07 / C08: integer-list and mask keys in every form; assigned values in every form"""
    ex = 0
    for kind, vals in DATA.items():
        for n in (1, 3):
            base = vals[:n]
            keys = {"ints": [0, n - 1, 0][:n + 1], "neg": [-1, -n], "mask": [i % 2 == 0 for i in range(n)], "empty": []}
            for kname, key in keys.items():
                st0, r0, e0 = attempt(lambda: Vector(list(base), name="v")[list(key)])
                kforms = {"Vector": lambda: Vector(list(key)) if key else None, "tuple": lambda: tuple(key),
                          "table column": lambda: Table({"k": list(key), "j": list(key)}).k if key else None}
                for fname, mk in kforms.items():
                    k = mk()
                    if k is None:
                        continue
                    st, r, e = attempt(lambda: Vector(list(base), name="v")[k])
                    ex += 1
                    case = {"kind": kind, "n": n, "key": kname, "form": fname}
                    if st != "ok":
                        continue
                    if fname == "tuple":
                        continue                   # a tuple key is matrix indexing by definition: not the same request
                    if st0 != "ok" or not isinstance(r, Vector) or not views_equal(vec_view(r), vec_view(r0)):
                        F.add("form_index", case, view(r), view(r0) if st0 == "ok" else "rejected like the list form")
                # assignment: v[key] = <values in any form>
                npos = sum(1 for x in key if x) if kname == "mask" else len(key)
                newv = [base[0]] * npos
                if not npos:
                    continue

                def assign(k, value):
                    v = Vector(list(base), name="v")
                    v[k] = value
                    return v
                st0, r0, e0 = attempt(lambda: assign(list(key), list(newv)))
                for kf, mkk in (("list", lambda: list(key)), ("Vector", lambda: Vector(list(key)))):
                    for fname, mk in seq_forms(newv).items():
                        v = Vector(list(base), name="v")
                        before = vec_view(v)
                        st, _, e = attempt(lambda: v.__setitem__(mkk(), mk()))
                        ex += 1
                        case = {"kind": kind, "n": n, "key": kname, "key form": kf, "value form": fname}
                        if st != "ok":
                            if not views_equal(vec_view(v), before):
                                F.add("form_assign_atomic", case, vec_view(v), before)
                            continue
                        if st0 != "ok":
                            F.add("form_assign", case, vec_view(v), "rejected like the list form (" + type(e0).__name__ + ")")
                        elif not views_equal(vec_view(v), vec_view(r0)):
                            F.add("form_assign", case, vec_view(v), vec_view(r0))
    return ex


def relational(F, mon):
    """C12-C14 (and names, C18): key / value columns named by stored name, by vector, by the table's own column object,
    by accessor spelling, singly or in a list / tuple"""
    ex = 0
    t0 = {"Key One": ["b", "a", "b", None, "a"], "k2": [1, 1, 2, 2, 1], "val": [5, None, 7, 1, 3], "w": [1.5, 2.5, 0.5, 4.0, 3.0]}

    def tab():
        return Table({k: list(v) for k, v in t0.items()})

    def specs(t, i, nm):
        col = t.cols()[i]
        out = {"stored name": nm, "column object": col, "equal vector": Vector(list(col), name=nm), "lower": nm.lower(), "upper": nm.upper(),
               "sanitised": nm.lower().replace(" ", "_"), "positional": "col%d_" % (i + 1)}
        return {k: v for k, v in out.items() if isinstance(v, Vector) or _resolves(t, v, col)}

    def _resolves(t, s, col):
        try:
            return t[s] is col
        except Exception:      # noqa: BLE001
            return False
    calls = {
        "sort_by": lambda t, k1, k2, v: t.sort_by([k1, k2], reverse=[False, True]),
        "sort_by one": lambda t, k1, k2, v: t.sort_by(k1),
        "aggregate": lambda t, k1, k2, v: t.aggregate(over=[k1, k2], sum_over=v, count_over=v),
        "aggregate one": lambda t, k1, k2, v: t.aggregate(over=k1, mean_over=[v]),
        "window": lambda t, k1, k2, v: t.window(over=[k1, k2], sum_over=v, max_over=v),
        "window tuple": lambda t, k1, k2, v: t.window(over=(k1,), min_over=(v,)),
        "inner_join": lambda t, k1, k2, v: t.inner_join(Table({"Key One": ["a", "b"], "z": [1, 2]}), k1, "Key One"),
        "join 2 keys": lambda t, k1, k2, v: t.join(Table({"Key One": ["a", "b"], "k2": [1, 2], "z": [1, 2]}), [k1, k2], ["Key One", "k2"]),
    }
    for cname, call in calls.items():
        t = tab()
        st0, r0, e0 = attempt(lambda: call(t, "Key One", "k2", "val"))
        if st0 != "ok":
            F.add("form_" + cname.split()[0].replace("inner_join", "join"), {"call": cname}, "canonical call raised " + type(e0).__name__ + ": " + str(e0)[:80], "a table")
            continue
        for f1, f2, f3 in itertools.product(("stored name", "column object", "equal vector", "lower", "upper", "sanitised", "positional"),
                                            ("stored name", "column object", "equal vector"), ("stored name", "column object", "equal vector", "upper")):
            t = tab()
            s1, s2, s3 = specs(t, 0, "Key One"), specs(t, 1, "k2"), specs(t, 2, "val")
            if f1 not in s1 or f2 not in s2 or f3 not in s3:
                continue
            before = table_view(t)
            st, r, e = attempt(lambda: call(t, s1[f1], s2[f2], s3[f3]))
            ex += 1
            case = {"call": cname, "key 1 given as": f1, "key 2 given as": f2, "value given as": f3}
            if not views_equal(table_view(t), before):
                F.add("operands_unchanged", case, table_view(t), before)
            if st != "ok":
                continue
            if not isinstance(r, Table) or not views_equal(table_view(r), table_view(r0)):
                F.add("form_" + cname.split()[0].replace("inner_join", "join"), case, view(r), view(r0))
    # columns whose names sanitise alike ('Region' / 'region', 'a b' / 'a_b'): a string spec that equals a stored name means
    # THAT column - the result must be the one obtained by handing over the column object itself
    cols = {"Region": ["x", "y", "x", "y", "x"], "region": ["p", "p", "q", "r", "r"], "a b": [1, 1, 2, 2, 3], "a_b": [5, 4, 3, 2, 1], "val": [1, 2, 3, 4, 5]}
    look = {
        "sort_by": lambda t, k: t.sort_by(k, reverse=True), "aggregate": lambda t, k: t.aggregate(over=k, sum_over="val"),
        "window": lambda t, k: t.window(over=k, count_over="val"), "aggregate value": lambda t, k: t.aggregate(over="val", max_over=k),
        "join": lambda t, k: t.join(Table({"j": list(dict.fromkeys(cols[k if isinstance(k, str) else k.name])), "z": list(range(len(set(cols[k if isinstance(k, str) else k.name]))))}), k, "j"),
        "t[name]": lambda t, k: t[k] if isinstance(k, str) else k, "t[(names)]": lambda t, k: t[(k, "val")] if isinstance(k, str) else Table([k, t["val"]]),
    }
    for cname, call in look.items():
        for nm in ("Region", "region", "a b", "a_b"):
            for order in (list(cols), list(reversed(list(cols)))):
                t = Table({k: list(cols[k]) for k in order})
                colobj = t.cols()[order.index(nm)]
                st0, r0, e0 = attempt(lambda: call(t, colobj))
                st, r, e = attempt(lambda: call(t, nm))
                ex += 1
                case = {"call": cname, "column named": nm, "columns": order}
                if st0 != "ok" or st != "ok":
                    if st0 != st:
                        F.add("form_" + cname.split()[0].replace("t[name]", "index").replace("t[(names)]", "index"), case,
                              "by name: " + (type(e).__name__ if e else "ok") + ", by column object: " + (type(e0).__name__ if e0 else "ok"), "the same outcome")
                    continue
                if not views_equal(view(r), view(r0)):
                    F.add("form_" + cname.split()[0].replace("t[name]", "index").replace("t[(names)]", "index"), case, view(r), view(r0))
    return ex


def purity(F, mon):
    """C01: "operations that return a new object never change their operands" - every value-returning public operation of a
    vector, called with arguments of the same, a wider and an incompatible kind, on a free vector and on a live table column:
    afterwards the receiver (contents, name, dtype, fingerprint), the other operand and the table are what they were"""
    from datetime import datetime, timedelta
    ex = 0
    wide = {"int": [0, 7, 1.5, 2 + 1j, True, "z", None], "int?": [0, 1.5, "z", None], "float": [0.0, 2, 1 + 1j, "z"], "str": ["", "z", 3],
            "bool": [True, 2, 1.5, "z"], "date": [date(2000, 1, 1), datetime(2000, 1, 1, 12), 3, "z"]}
    for kind, vals in DATA.items():
        ops = [("dropna", lambda v: v.dropna()), ("isna", lambda v: v.isna()), ("to_object", lambda v: v.to_object()), ("unique", lambda v: v.unique()),
               ("copy", lambda v: v.copy()), ("T", lambda v: v.T), ("sort_by", lambda v: v.sort_by()), ("sort_by desc", lambda v: v.sort_by(reverse=True, na_last=False)),
               ("argsort", lambda v: v.argsort()), ("max", lambda v: v.max()), ("min", lambda v: v.min()), ("sum", lambda v: v.sum()),
               ("mean", lambda v: v.mean()), ("stdev", lambda v: v.stdev()), ("any", lambda v: v.any()), ("all", lambda v: v.all()),
               ("repr", lambda v: repr(v)), ("fingerprint", lambda v: v.fingerprint()), ("schema", lambda v: v.schema()), ("isinstance", lambda v: v.isinstance((int, str))),
               ("pluck", lambda v: v.pluck(0)), ("v[::-1]", lambda v: v[::-1]), ("v[mask]", lambda v: v[[True, False, True]]), ("iter", lambda v: list(v)),
               ("neg", lambda v: -v), ("abs", lambda v: abs(v)), ("v << []", lambda v: v << []), ("v >> v", lambda v: v >> v), ("v @ v", lambda v: v @ v)]
        for target in (int, float, str, bool, complex, date, datetime):
            ops.append(("cast(%s)" % target.__name__, lambda v, target=target: v.cast(target)))
        for x in wide[kind]:
            ops += [("fillna(%r)" % (x,), lambda v, x=x: v.fillna(x)), ("v + %r" % (x,), lambda v, x=x: v + x), ("%r + v" % (x,), lambda v, x=x: x + v),
                    ("v * %r" % (x,), lambda v, x=x: v * x), ("v == %r" % (x,), lambda v, x=x: v == x), ("v < %r" % (x,), lambda v, x=x: v < x),
                    ("v << [%r]" % (x,), lambda v, x=x: v << [x]), ("v + [x]*3", lambda v, x=x: v + [x, x, x]), ("v + Vector", lambda v, x=x: v + Vector([x, x, x], name="o")),
                    ("v >> Vector", lambda v, x=x: v >> Vector([x, x, x], name="o")), ("v ** x", lambda v, x=x: v ** x), ("v / x", lambda v, x=x: v / x)]
        for oname, op in ops:
            for where in ("free vector", "table column"):
                if where == "free vector":
                    t = None
                    v = Vector(list(vals), name="v")
                else:
                    t = Table({"v": list(vals), "k": [1, 2, 3]})
                    v = t.v
                before, fp0 = vec_view(v), v.fingerprint()
                tb = table_view(t) if t is not None else None
                st, r, e = attempt(lambda: op(v))
                ex += 1
                case = {"kind": kind, "operation": oname, "receiver": where, "outcome": "ok" if st == "ok" else type(e).__name__}
                if not views_equal(vec_view(v), before) or v.fingerprint() != fp0:
                    F.add("operands_unchanged", case, vec_view(v), before)
                if t is not None and not views_equal(table_view(t), tb):
                    F.add("operands_unchanged", case, table_view(t), tb)
                if st == "ok" and r is v and oname not in ("schema",):
                    F.add("operands_unchanged", case, "the operation returned its receiver", "a new object")
    return ex


def main():
    out = sys.argv[1]
    F, mon = Fails(), Monitor()
    ex = elementwise(F, mon) + indexing(F, mon) + relational(F, mon) + purity(F, mon)
    json.dump({"executed": ex, "failures": F.items, "per_clause": F.per, "skipped": {}, **mon.dump()}, open(out, "w"), default=str)


if __name__ == "__main__":
    main()
