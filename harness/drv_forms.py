"""Argument-form independence (metamorphic binding of the spec-checked canonical forms to every
other way the API accepts the same argument).

The spec-driven suites decide the CANONICAL form of every operation (vector operands, list
keys, columns named by their stored name ...).  The property statements quantify over "all
key forms", "vector, scalar or plain sequence", "keys given by name or by vector" - so for
every other form the rule checked here is:

    the call is rejected (any exception, nothing changed)   OR
    it gives exactly what the canonical form gives (values, dtype, name, column names).

usage: drv_forms.py <out.json>       (PYTHONPATH=<repo>/src)
"""
import itertools
import copy
import json
import pickle
import operator
import sys
from datetime import date

from tabutil import Vector, Table, vec_view, table_view, views_equal, Monitor


class Fails:
    def __init__(self):
        self.items, self.per = [], {}

    def add(self, clause, case, obs, exp):
        self.per[clause] = self.per.get(clause, 0) + 1
        if self.per[clause] <= 25:
            self.items.append({"clause": clause, "case": case, "observed": obs, "expected": exp})


def attempt(f):
    try:
        return "ok", f(), None
    except Exception as e:      # noqa: BLE001
        return "err", None, e


def view(x):
    if isinstance(x, Table):
        return {"table": table_view(x)}
    if isinstance(x, Vector):
        return {"vector": vec_view(x)}
    return {"value": x}


DATA = {"int": [3, 1, 2], "int?": [3, None, 2], "float": [1.5, 0.5, 2.5], "str": ["b", "a", "c"], "bool": [True, False, True],
        "date": [date(2020, 1, 2), date(2019, 5, 6), date(2021, 7, 8)]}
BIN = {"add": operator.add, "sub": operator.sub, "mul": operator.mul, "truediv": operator.truediv, "floordiv": operator.floordiv,
       "mod": operator.mod, "pow": operator.pow, "eq": operator.eq, "ne": operator.ne, "lt": operator.lt, "le": operator.le,
       "gt": operator.gt, "ge": operator.ge}


def seq_forms(vals):
    """the same sequence of cells handed over in every sized / unsized way"""
    w = len(vals)
    out = {"tuple": lambda: tuple(vals), "Vector": lambda: Vector(list(vals)), "named Vector": lambda: Vector(list(vals), name="other"),
           "generator": lambda: (x for x in vals), "iter": lambda: iter(list(vals)), "map": lambda: map(lambda x: x, list(vals))}
    if w:
        out["Row"] = lambda: Table([Vector([x], name="r%d" % i) for i, x in enumerate(vals)])[0]
        out["table column"] = lambda: Table({"c": list(vals), "d": list(vals)}).c
    if all(isinstance(x, int) and not isinstance(x, bool) for x in vals) and vals == list(range(vals[0], vals[0] + w)) if vals else False:
        out["range"] = lambda: range(vals[0], vals[0] + w)
    return out


def elementwise(F, mon):
    """C05 / C06 / C07: v op <sequence in any form>, reflected too"""
    ex = 0
    for lk, lv in DATA.items():
        for rk, rv in (("int", [1, 2, 3]), ("int?", [2, None, 1]), ("float", [0.5, 2.0, 1.5]), ("str", ["x", "y", "z"]), ("int1", [4, 5, 6])):
            for n in (0, 1, 3):
                a, b = lv[:n], rv[:n]
                for opname, fn in BIN.items():
                    # outside the claim where Python itself does not define the scalar operation (the library then
                    # answers with implementation-defined fallbacks that differ by form, e.g. dates + [1, 2])
                    try:
                        for x, y in zip(a, b):
                            if x is not None and y is not None:
                                fn(x, y), fn(y, x)
                    except Exception:      # noqa: BLE001
                        continue
                    for side in ("v op seq", "seq op v"):
                        def run(seq):
                            v = Vector(list(a), name="L")
                            return fn(v, seq) if side == "v op seq" else fn(seq, v)
                        st0, r0, e0 = attempt(lambda: run(list(b)))
                        for fname, mk in seq_forms(b).items():
                            if side == "seq op v" and fname in ("Vector", "named Vector", "Row", "table column"):
                                continue          # that is the vector-vector form with the operands swapped
                            st, r, e = attempt(lambda: run(mk()))
                            ex += 1
                            if st != "ok":
                                continue
                            case = {"left": lk, "right": rk, "n": n, "op": opname, "form": fname, "written": side}
                            if not isinstance(r, Vector):
                                if opname in ("eq", "ne") and isinstance(r, bool):
                                    continue      # Python's default identity comparison answered: the library did not handle the form
                                F.add("form_elementwise", case, repr(r), "a vector or a rejection")
                                continue
                            if st0 != "ok":
                                F.add("form_elementwise", case, list(r), "rejected like the list form (" + type(e0).__name__ + ")")
                                continue
                            if not views_equal(list(r), list(r0)):
                                F.add("form_elementwise", case, list(r), list(r0))
                            elif str(r.schema()) != str(r0.schema()):
                                F.add("form_dtype", case, str(r.schema()), str(r0.schema()))
                            mon.see(r, "operand form " + fname, rule=False)
    # logical operators answer with booleans whatever the operands hold (int bit flags, sets, bools): the result reaches the
    # dtype monitors, and its cells are the truth values of Python's own operation
    LOGIC = {"and": operator.and_, "or": operator.or_, "xor": operator.xor}
    flagsets = {"int flags": ([5, 6, 0, 3], [4, 1, 0, 2], 4), "bools": ([True, False, True, False], [True, True, False, False], True),
                "flags with a gap": ([True, None, False, True], [True, True, True, False], True), "gaps on the right": ([True, False, True, True], [True, None, None, False], True),
                "bools with int scalar": ([True, False, True, False], [1, 0, 0, 1], 1), "sets": ([{1, 2}, {2}, set(), {3}], [{2}, {1}, {1}, {3}], {2})}
    for fname, (a, b, scalar) in flagsets.items():
        for opname, fn in LOGIC.items():
            for oname, other in (("scalar", scalar), ("list", list(b)), ("Vector", None), ("reflected scalar", scalar), ("reflected list", list(b))):
                v = Vector(list(a), name="L")
                o = Vector(list(b)) if other is None else other
                st, r, e = attempt(lambda: fn(o, v) if oname.startswith("reflected") else fn(v, o))
                ex += 1
                if st != "ok" or not isinstance(r, Vector):
                    continue
                case = {"operands": fname, "op": opname, "other": oname}
                ys = [scalar] * len(a) if "scalar" in oname else list(b)
                try:
                    exp = [bool(fn(y, x)) if oname.startswith("reflected") else bool(fn(x, y)) for x, y in zip(a, ys)]
                except Exception:      # noqa: BLE001
                    exp = None          # (a None operand: Python has no answer; the cells are not compared)
                got = list(r)
                if exp is not None and (got != exp or any(type(g) is not bool for g in got)):
                    F.add("form_logic", case, got, exp)
                # a logical result is a non-nullable boolean vector - whatever the operands were - and works as a mask
                if str(r.schema()) != "<bool>" or any(type(g) is not bool for g in got):
                    F.add("form_logic", case, {"dtype": str(r.schema()), "cells": got}, "<bool> over booleans")
                else:
                    stm, sel, em = attempt(lambda: Vector(list(range(len(got))))[r])
                    if stm != "ok" or list(sel) != [i for i, g in enumerate(got) if g]:
                        F.add("form_logic", dict(case, used="as a mask"), type(em).__name__ if stm != "ok" else list(sel), [i for i, g in enumerate(got) if g])
                mon.see(r, "logical operator on " + fname, rule=False)
    # cells narrower than the vector's kind (exact ints inside a float vector - results of int ** negative int next to
    # int ** positive int -, bools inside an int vector, dates inside a datetime vector): the operator is applied to THE CELL
    from datetime import datetime as _dtm2, timedelta as _td
    narrow = {"float holding big ints": [2 ** 61 - 1, 0.5, -(2 ** 60 + 1), None, 3], "complex holding big ints": [2 ** 61 - 1, 1j, None, -(2 ** 60 + 1)],
              "int holding bools": [True, 7, False, None, -(2 ** 62)], "made by **": None}
    unary = {"neg": operator.neg, "pos": operator.pos, "abs": abs}
    for nname, cells in narrow.items():
        if cells is None:
            st, v0, e = attempt(lambda: Vector([2, 3, 5]) ** Vector([61, -1, 2]))
            if st != "ok":
                continue
            cells = list(v0)
        for uname, fn in unary.items():
            v = Vector(list(cells), name="n")
            st, r, e = attempt(lambda: fn(v))
            ex += 1
            try:
                exp = [None if x is None else fn(x) for x in cells]
            except Exception:      # noqa: BLE001
                continue
            if st != "ok" or not isinstance(r, Vector):
                continue
            if not views_equal(list(r), exp) or [type(g) for g in r] != [type(x) for x in exp]:
                F.add("form_elementwise", {"vector": nname, "op": uname}, [repr(g) for g in r], [repr(x) for x in exp])
            mon.see(r, "unary operator on " + nname)
        for bname, fn in (("add", operator.add), ("sub", operator.sub), ("mul", operator.mul), ("floordiv", operator.floordiv), ("mod", operator.mod)):
            for oname, other in (("int scalar", 1), ("float scalar", 1.0), ("reflected int scalar", 3)):
                if "complex" in nname and bname in ("floordiv", "mod"):
                    continue
                v = Vector(list(cells), name="n")
                st, r, e = attempt(lambda: fn(other, v) if oname.startswith("reflected") else fn(v, other))
                ex += 1
                try:
                    exp = [None if x is None else (fn(other, x) if oname.startswith("reflected") else fn(x, other)) for x in cells]
                except Exception:      # noqa: BLE001
                    continue
                if st != "ok" or not isinstance(r, Vector):
                    continue
                if not views_equal(list(r), exp) or [type(g) for g in r] != [type(x) for x in exp]:
                    F.add("form_elementwise", {"vector": nname, "op": bname, "other": oname}, [repr(g) for g in r], [repr(x) for x in exp])
    # v << x and x << v with x in every container form: the cells in order, and the dtype of the list form
    for lk, lv in DATA.items():
        for xname, xs in (("wider kind", [2.5]), ("None", [None]), ("text", ["s"]), ("same kind", lv[:1]), ("two cells", [lv[0], 2.5]), ("nothing", [])):
            for side in ("v << x", "x << v"):
                def run(x):
                    v = Vector(list(lv), name="L")
                    return (v << x) if side == "v << x" else (x << v)
                st0, r0, e0 = attempt(lambda: run(list(xs)))
                if st0 != "ok" or not isinstance(r0, Vector):
                    continue
                mon.see(r0, "concatenation " + side + " with a list")
                forms = dict(seq_forms(xs))
                forms.update({"reversed": lambda: reversed(list(reversed(xs))), "dict keys": (lambda: dict.fromkeys(xs).keys()) if len(set(map(repr, xs))) == len(xs) else None,
                              "deque": lambda: __import__("collections").deque(xs)})
                for fname, mk in forms.items():
                    if mk is None or fname in ("Row", "table column", "Vector", "named Vector"):
                        continue
                    st, r, e = attempt(lambda: run(mk()))
                    ex += 1
                    if st != "ok" or not isinstance(r, Vector):
                        continue
                    case = {"vector": lk, "added": xname, "form": fname, "written": side}
                    if not views_equal(list(r), list(r0)):
                        F.add("form_concat", case, list(r), list(r0))
                    elif str(r.schema()) != str(r0.schema()):
                        F.add("form_dtype", case, str(r.schema()), str(r0.schema()))
                    mon.see(r, "concatenation " + side + " with " + fname)
    return ex


def indexing(F, mon):
    """C07 / C08: integer-list and mask keys in every form; assigned values in every form"""
    ex = 0
    for kind, vals in DATA.items():
        for n in (1, 3):
            base = vals[:n]
            keys = {"ints": [0, n - 1, 0][:n + 1], "neg": [-1, -n], "mask": [i % 2 == 0 for i in range(n)], "empty": []}
            for kname, key in keys.items():
                st0, r0, e0 = attempt(lambda: Vector(list(base), name="v")[list(key)])
                kforms = {"Vector": lambda: Vector(list(key)) if key else None, "tuple": lambda: tuple(key),
                          "table column": lambda: Table({"k": list(key), "j": list(key)}).k if key else None}
                for fname, mk in kforms.items():
                    k = mk()
                    if k is None:
                        continue
                    st, r, e = attempt(lambda: Vector(list(base), name="v")[k])
                    ex += 1
                    case = {"kind": kind, "n": n, "key": kname, "form": fname}
                    if st != "ok":
                        continue
                    if fname == "tuple":
                        continue                   # a tuple key is matrix indexing by definition: not the same request
                    if st0 != "ok" or not isinstance(r, Vector) or not views_equal(vec_view(r), vec_view(r0)):
                        F.add("form_index", case, view(r), view(r0) if st0 == "ok" else "rejected like the list form")
                # assignment: v[key] = <values in any form>
                npos = sum(1 for x in key if x) if kname == "mask" else len(key)
                newv = [base[0]] * npos
                if not npos:
                    continue

                def assign(k, value):
                    v = Vector(list(base), name="v")
                    v[k] = value
                    return v
                st0, r0, e0 = attempt(lambda: assign(list(key), list(newv)))
                for kf, mkk in (("list", lambda: list(key)), ("Vector", lambda: Vector(list(key)))):
                    for fname, mk in seq_forms(newv).items():
                        v = Vector(list(base), name="v")
                        before = vec_view(v)
                        st, _, e = attempt(lambda: v.__setitem__(mkk(), mk()))
                        ex += 1
                        case = {"kind": kind, "n": n, "key": kname, "key form": kf, "value form": fname}
                        if st != "ok":
                            if not views_equal(vec_view(v), before):
                                F.add("form_assign_atomic", case, vec_view(v), before)
                            continue
                        if st0 != "ok":
                            F.add("form_assign", case, vec_view(v), "rejected like the list form (" + type(e0).__name__ + ")")
                        elif not views_equal(vec_view(v), vec_view(r0)):
                            F.add("form_assign", case, vec_view(v), vec_view(r0))
    return ex


def _same_items(container, items):
    """the container still holds exactly these objects (identity: an item may be a vector, which has no truth value)"""
    return len(container) == len(items) and all(a is b for a, b in zip(container, items))


def relational(F, mon):
    """C12-C14 (and names, C18): key / value columns named by stored name, by vector, by the table's own column object,
    by accessor spelling, singly or in a list / tuple"""
    ex = 0
    t0 = {"Key One": ["b", "a", "b", None, "a"], "k2": [1, 1, 2, 2, 1], "val": [5, None, 7, 1, 3], "w": [1.5, 2.5, 0.5, 4.0, 3.0]}

    def tab():
        return Table({k: list(v) for k, v in t0.items()})

    def specs(t, i, nm):
        col = t.cols()[i]
        out = {"stored name": nm, "rebuilt string": "".join(list(nm)), "column object": col, "equal vector": Vector(list(col), name=nm), "lower": nm.lower(), "upper": nm.upper(),
               "sanitised": nm.lower().replace(" ", "_"), "positional": "col%d_" % (i + 1)}
        # (the stored name itself - however the string object was built - is never filtered out: it MUST resolve)
        return {k: v for k, v in out.items() if isinstance(v, Vector) or k in ("stored name", "rebuilt string") or _resolves(t, v, col)}

    def _resolves(t, s, col):
        try:
            return t[s] is col
        except Exception:      # noqa: BLE001
            return False
    calls = {
        "sort_by": lambda t, k1, k2, v: t.sort_by([k1, k2], reverse=[False, True]),
        "sort_by one": lambda t, k1, k2, v: t.sort_by(k1),
        "aggregate": lambda t, k1, k2, v: t.aggregate(over=[k1, k2], sum_over=v, count_over=v),
        "aggregate one": lambda t, k1, k2, v: t.aggregate(over=k1, mean_over=[v]),
        "window": lambda t, k1, k2, v: t.window(over=[k1, k2], sum_over=v, max_over=v),
        "window tuple": lambda t, k1, k2, v: t.window(over=(k1,), min_over=(v,)),
        "inner_join": lambda t, k1, k2, v: t.inner_join(Table({"Key One": ["a", "b"], "z": [1, 2]}), k1, "Key One"),
        "join 2 keys": lambda t, k1, k2, v: t.join(Table({"Key One": ["a", "b"], "k2": [1, 2], "z": [1, 2]}), [k1, k2], ["Key One", "k2"]),
    }
    for cname, call in calls.items():
        t = tab()
        st0, r0, e0 = attempt(lambda: call(t, "Key One", "k2", "val"))
        if st0 != "ok":
            F.add("form_" + cname.split()[0].replace("inner_join", "join"), {"call": cname}, "canonical call raised " + type(e0).__name__ + ": " + str(e0)[:80], "a table")
            continue
        for f1, f2, f3 in itertools.product(("stored name", "rebuilt string", "column object", "equal vector", "lower", "upper", "sanitised", "positional"),
                                            ("stored name", "column object", "equal vector"), ("stored name", "column object", "equal vector", "upper")):
            t = tab()
            s1, s2, s3 = specs(t, 0, "Key One"), specs(t, 1, "k2"), specs(t, 2, "val")
            if f1 not in s1 or f2 not in s2 or f3 not in s3:
                continue
            before = table_view(t)
            st, r, e = attempt(lambda: call(t, s1[f1], s2[f2], s3[f3]))
            ex += 1
            case = {"call": cname, "key 1 given as": f1, "key 2 given as": f2, "value given as": f3}
            if not views_equal(table_view(t), before):
                F.add("operands_unchanged", case, table_view(t), before)
            if st != "ok":
                # other spellings may be rejected; a string EQUAL to the stored name (however it was built) and the column itself may not
                if {f1, f2, f3} <= {"stored name", "rebuilt string", "column object"}:
                    F.add("form_" + cname.split()[0].replace("inner_join", "join"), case, "raised " + type(e).__name__ + ": " + str(e)[:80], view(r0))
                continue
            if not isinstance(r, Table) or not views_equal(table_view(r), table_view(r0)):
                F.add("form_" + cname.split()[0].replace("inner_join", "join"), case, view(r), view(r0))
    # columns whose names sanitise alike ('Region' / 'region', 'a b' / 'a_b'): a string spec that equals a stored name means
    # THAT column - the result must be the one obtained by handing over the column object itself
    cols = {"Region": ["x", "y", "x", "y", "x"], "region": ["p", "p", "q", "r", "r"], "a b": [1, 1, 2, 2, 3], "a_b": [5, 4, 3, 2, 1], "val": [1, 2, 3, 4, 5]}
    look = {
        "sort_by": lambda t, k: t.sort_by(k, reverse=True), "aggregate": lambda t, k: t.aggregate(over=k, sum_over="val"),
        "window": lambda t, k: t.window(over=k, count_over="val"), "aggregate value": lambda t, k: t.aggregate(over="val", max_over=k),
        "join": lambda t, k: t.join(Table({"j": list(dict.fromkeys(cols[k if isinstance(k, str) else k.name])), "z": list(range(len(set(cols[k if isinstance(k, str) else k.name]))))}), k, "j"),
        "t[name]": lambda t, k: t[k] if isinstance(k, str) else k, "t[(names)]": lambda t, k: t[(k, "val")] if isinstance(k, str) else Table([k, t["val"]]),
    }
    for cname, call in look.items():
        for nm in ("Region", "region", "a b", "a_b"):
            for order in (list(cols), list(reversed(list(cols)))):
                t = Table({k: list(cols[k]) for k in order})
                colobj = t.cols()[order.index(nm)]
                st0, r0, e0 = attempt(lambda: call(t, colobj))
                st, r, e = attempt(lambda: call(t, nm))
                ex += 1
                case = {"call": cname, "column named": nm, "columns": order}
                if st0 != "ok" or st != "ok":
                    if st0 != st:
                        F.add("form_" + cname.split()[0].replace("t[name]", "index").replace("t[(names)]", "index"), case,
                              "by name: " + (type(e).__name__ if e else "ok") + ", by column object: " + (type(e0).__name__ if e0 else "ok"), "the same outcome")
                    continue
                if not views_equal(view(r), view(r0)):
                    F.add("form_" + cname.split()[0].replace("t[name]", "index").replace("t[(names)]", "index"), case, view(r), view(r0))
    # unnamed and repeated columns are addressed by their generated accessors (col<i>_, name__<i>, 0-based positions): as a
    # string spec each of them means the column at that position
    def t3():
        return Table([Vector([3, 1, 2, 1, 3]), Vector(["p", "p", "q", "r", "r"], name="k"), Vector([1, 1, 2, 2, 3], name="k"), Vector([5, 4, 3, 2, 1]), Vector([1, 2, 3, 4, 5], name="val")])
    gen_acc = {"col0_": 0, "k": 1, "k__2": 2, "col3_": 3, "COL3_": 3, "K__2": 2}
    look3 = {"sort_by": lambda t, k: t.sort_by(k, reverse=True), "aggregate": lambda t, k: t.aggregate(over=k, sum_over="val"),
             "window": lambda t, k: t.window(over=k, count_over="val"), "aggregate value": lambda t, k: t.aggregate(over="val", max_over=k),
             "t[name]": lambda t, k: t[k] if isinstance(k, str) else k, "t[(names)]": lambda t, k: t[(k, "val")] if isinstance(k, str) else Table([k, t["val"]])}
    for cname, call in look3.items():
        for acc, pos in gen_acc.items():
            t = t3()
            st0, r0, e0 = attempt(lambda: call(t, t.cols()[pos]))
            st, r, e = attempt(lambda: call(t, "".join(list(acc))))
            ex += 1
            case = {"call": cname, "column given as": acc, "means column": pos}
            if st != "ok":
                continue                   # rejecting the spelling is allowed
            if st0 != "ok" or not views_equal(view(r), view(r0)):
                F.add("form_" + cname.split()[0].replace("t[name]", "index").replace("t[(names)]", "index"), case, view(r), view(r0) if st0 == "ok" else "the outcome for the column object")
    # a key handed over as a VECTOR is used as given - also when it carries the name of a column of the table and other values
    # (a computed key such as -t.k2 or t.k2.fillna(0) keeps its source's name)
    base = {"k2": [3, 1, 2, 1, 3], "val": [10, 20, 30, 40, 50]}
    for dname, derive in (("-t.k2", lambda t: -t.k2), ("t.k2 % 2", lambda t: t.k2 % 2), ("t.k2[::-1]", lambda t: t.k2[::-1]),
                          ("Vector(other values, name='k2')", lambda t: Vector([5, 4, 3, 2, 1], name="k2")), ("t.k2 * 0", lambda t: t.k2 * 0)):
        t = Table({k: list(v) for k, v in base.items()})
        dv = derive(t)
        dv.name = "k2"                     # (arithmetic drops names; a caller may well put the name back)
        dvals = list(dv)
        t_ref = Table({"k2": list(dvals), "val": list(base["val"])})      # the same table with the derived values stored in the column
        for cname, call, ref in (("sort_by", lambda tt, k: [list(c) for c in tt.sort_by(k).cols()][1], lambda: [list(c) for c in t_ref.sort_by("k2").cols()][1]),
                                 ("aggregate", lambda tt, k: [list(c) for c in tt.aggregate(over=k, sum_over="val").cols()], lambda: [list(c) for c in t_ref.aggregate(over="k2", sum_over="val").cols()]),
                                 ("window", lambda tt, k: [list(c) for c in tt.window(over=k, sum_over="val").cols()][1], lambda: [list(c) for c in t_ref.window(over="k2", sum_over="val").cols()][1]),
                                 ("join", lambda tt, k: [list(c) for c in tt.join(Table({"j": [0, 1, 2, 3, 4, 5, -1, -2, -3], "z": list(range(9))}), k, "j", expect="many_to_one").cols()][-1],
                                  lambda: [list(c) for c in t_ref.join(Table({"j": [0, 1, 2, 3, 4, 5, -1, -2, -3], "z": list(range(9))}), "k2", "j", expect="many_to_one").cols()][-1])):
            st, r, e = attempt(lambda: call(t, dv))
            st0, r0, e0 = attempt(ref)
            ex += 1
            if st0 != "ok":
                continue
            if st != "ok" or not views_equal(r, r0):
                F.add("form_" + cname, {"call": cname, "key": dname + " (a vector named like the column 'k2')"}, r if st == "ok" else type(e).__name__, r0)
    # where the expectation holds, the result is THE join - the same table (cells, names, dtypes) under every expect word
    def _named(v, nm):
        v = v.copy()
        v.name = nm
        return v
    left = Table([Vector([1, 2, 3], name="k"), _named(Vector([5, None, 7, 9])[[True, False, True, True]], "n"), Vector([1, 2, 3], dtype=float, name="f"),
                  _named(Vector([1, 2, 3]).to_object(), "o")])
    right = Table({"k": [1, 2, 3], "z": ["a", "b", "c"]})
    for m in ("inner_join", "join", "full_join"):
        views = {}
        for w in ("one_to_one", "many_to_one", "one_to_many", "many_to_many"):
            st, r, e = attempt(lambda: getattr(left, m)(right, "k", "k", expect=w))
            ex += 1
            if st == "ok":
                views[w] = table_view(r)
        ref_w = "many_to_many"
        for w, v in views.items():
            if ref_w in views and not views_equal(v, views[ref_w]):
                F.add("form_join", {"call": m, "expect": w, "compared with expect": ref_w}, v, views[ref_w])
    # key CONTAINERS are arguments like any other: one list object handed over for both sides, a list reused for a second join
    # on other tables, lists against tuples - the join is the one obtained with fresh containers, and the caller's lists keep
    # their items
    def ta():
        return Table({"k": [1, 2, 2, 4], "g": ["x", "y", "x", "y"], "v": [10, 20, 30, 40]})

    def tb():
        return Table({"k": [2, 4, 4, 5, 1, 7], "g": ["x", "y", "y", "x", "x", "y"], "z": [1, 2, 3, 4, 5, 6]})

    def tc():
        return Table({"k": [7, 5, 5], "g": ["y", "x", "x"], "q": [0.5, 1.5, 2.5]})
    for m in ("inner_join", "join", "full_join"):
        for keys in (["k"], ["k", "g"]):
            for wrap_name, wrap in (("list", list), ("tuple", tuple)):
                st0, r0, e0 = attempt(lambda: getattr(ta(), m)(tb(), wrap(keys), wrap(keys), expect="many_to_many"))
                st1, r1, e1 = attempt(lambda: getattr(tb(), m)(tc(), wrap(keys), wrap(keys), expect="many_to_many"))
                if st0 != "ok" or st1 != "ok":
                    continue
                on = wrap(keys)
                st, r, e = attempt(lambda: getattr(ta(), m)(tb(), on, on, expect="many_to_many"))
                ex += 1
                case = {"call": m, "keys": keys, "container": wrap_name, "how": "the same container object for left_on and right_on"}
                if st != "ok" or not views_equal(table_view(r), table_view(r0)):
                    F.add("form_join", case, view(r) if st == "ok" else type(e).__name__ + ": " + str(e)[:80], view(r0))
                if not _same_items(on, keys):
                    F.add("operands_unchanged", case, [type(x).__name__ for x in on], keys)
                # ... and once more, on other tables, with the containers of the first call
                lo, ro = wrap(keys), wrap(keys)
                attempt(lambda: getattr(ta(), m)(tb(), lo, ro, expect="many_to_many"))
                st, r, e = attempt(lambda: getattr(tb(), m)(tc(), lo, ro, expect="many_to_many"))
                ex += 1
                case = dict(case, how="containers used for an earlier join of other tables")
                if st != "ok" or not views_equal(table_view(r), table_view(r1)):
                    F.add("form_join", case, view(r) if st == "ok" else type(e).__name__ + ": " + str(e)[:80], view(r1))
                if not _same_items(lo, keys) or not _same_items(ro, keys):
                    F.add("operands_unchanged", case, [[type(x).__name__ for x in lo], [type(x).__name__ for x in ro]], [keys, keys])
    # CONTAINERS of key / value specs: a tuple, a generator, an iterator, a map object, a dict view ... in place of the list
    # is rejected or gives the result of the list (one-shot iterables must not be read twice)
    cont = {"tuple": tuple, "generator": lambda xs: (x for x in xs), "iter": lambda xs: iter(list(xs)), "map": lambda xs: map(lambda x: x, list(xs)),
            "dict keys": lambda xs: {x: 0 for x in xs}.keys() if all(isinstance(x, str) for x in xs) else tuple(xs), "reversed": lambda xs: reversed(list(reversed(list(xs))))}
    jr = lambda: Table({"Key One": ["a", "b", "a"], "k2": [1, 2, 2], "z": [1, 2, 3]})       # noqa: E731
    calls2 = {
        "sort_by keys": lambda t, C, K: t.sort_by(C(K(t, ["Key One", "k2"])), reverse=[True, False]),
        "sort_by reverse flags": lambda t, C, K: t.sort_by(K(t, ["Key One", "k2"]), reverse=C([True, False])),
        "aggregate over": lambda t, C, K: t.aggregate(over=C(K(t, ["Key One", "k2"])), sum_over=["val"]),
        "aggregate sum_over": lambda t, C, K: t.aggregate(over=["Key One"], sum_over=C(K(t, ["val", "w"])), max_over=C(K(t, ["w"]))),
        "aggregate count_over": lambda t, C, K: t.aggregate(over="k2", count_over=C(K(t, ["val"])), min_over=C(K(t, ["val", "w"]))),
        "window over": lambda t, C, K: t.window(over=C(K(t, ["Key One", "k2"])), sum_over=["val"]),
        "window sum_over": lambda t, C, K: t.window(over=["Key One"], sum_over=C(K(t, ["val", "w"])), max_over=C(K(t, ["w"]))),
        "window mean_over": lambda t, C, K: t.window(over="k2", mean_over=C(K(t, ["val"])), count_over=C(K(t, ["val", "w"]))),
        "join keys": lambda t, C, K: t.join(jr(), C(K(t, ["Key One", "k2"])), C(["Key One", "k2"]), expect="many_to_many"),
        "inner_join keys": lambda t, C, K: t.inner_join(jr(), C(K(t, ["Key One", "k2"])), C(["Key One", "k2"]), expect="many_to_many"),
        "full_join keys": lambda t, C, K: t.full_join(jr(), C(K(t, ["Key One", "k2"])), C(["Key One", "k2"]), expect="many_to_many"),
    }
    kinds = {"names": lambda t, names: list(names), "column objects": lambda t, names: [t[nm] for nm in names]}
    for cname, call in calls2.items():
        for kname, K in kinds.items():
            st0, r0, e0 = attempt(lambda: call(tab(), list, K))
            if st0 != "ok":
                continue
            for fname, C in cont.items():
                t = tab()
                st, r, e = attempt(lambda: call(t, C, K))
                ex += 1
                if st != "ok":
                    continue
                case = {"call": cname, "specs given as": kname, "in a": fname}
                if not isinstance(r, Table) or not views_equal(table_view(r), table_view(r0)):
                    F.add("form_" + cname.split()[0].replace("inner_join", "join").replace("full_join", "join"), case, view(r), view(r0))
    # containers the caller keeps: the lists / dicts handed to one call are handed to the next (on another table); they
    # hold what they held, and the second result is that of fresh containers
    def ga():
        return Table({"g": ["x", "y", "x", "y"], "v": [1, 2, 3, 4], "w": [10, 20, 30, 40]})

    def gb():
        return Table({"g": ["p", "p", "q", "q"], "v": [100, 200, 300, 400], "w": [5, 6, 7, 8]})
    for m in ("aggregate", "window"):
        def mk_args():
            return {"over": ["g"], "sum_over": ["v", "w"], "max_over": ["w"], "apply": {"spread": ("v", lambda xs: max(xs) - min(xs)), "n": ("w", len)}}
        st1, r1, e1 = attempt(lambda: getattr(gb(), m)(**mk_args()))
        if st1 != "ok":
            continue
        args = mk_args()
        snap = {k: (list(v) if isinstance(v, list) else dict(v)) for k, v in args.items()}
        attempt(lambda: getattr(ga(), m)(**args))
        st, r, e = attempt(lambda: getattr(gb(), m)(**args))
        ex += 1
        case = {"call": m, "how": "over / *_over lists and the apply dict reused from an earlier call on another table"}
        if st != "ok" or not views_equal(table_view(r), table_view(r1)):
            F.add("form_" + m, case, view(r) if st == "ok" else type(e).__name__ + ": " + str(e)[:80], view(r1))
        for k, v in args.items():
            same = _same_items(v, snap[k]) if isinstance(v, list) else (list(v) == list(snap[k]) and all(v[n] is snap[k][n] for n in v))
            if not same:
                F.add("operands_unchanged", dict(case, argument=k), repr(v)[:120], repr(snap[k])[:120])
    # a key listed twice adds nothing to a lexicographic order: the first listing decides, direction included
    st_tab = lambda: Table({"a": [2, 1, None, 2, 1, 3], "b": ["x", "y", "x", "x", "x", None], "c": [1, 2, 3, 4, 5, 6]})       # noqa: E731
    for label, rep_call, ref_call in (
            ("['a','b','a'] reverse [F,F,T]", lambda t: t.sort_by(["a", "b", "a"], reverse=[False, False, True]), lambda t: t.sort_by(["a", "b"], reverse=[False, False])),
            ("['a','b','a'] reverse [T,F,F]", lambda t: t.sort_by(["a", "b", "a"], reverse=[True, False, False]), lambda t: t.sort_by(["a", "b"], reverse=[True, False])),
            ("['a','a'] reverse [F,T]", lambda t: t.sort_by(["a", "a"], reverse=[False, True]), lambda t: t.sort_by("a")),
            ("[t.a, t.a] reverse [T,F]", lambda t: t.sort_by([t.a, t.a], reverse=[True, False]), lambda t: t.sort_by("a", reverse=True)),
            ("[t.b, t.a, t.b] reverse [T,F,F]", lambda t: t.sort_by([t.b, t.a, t.b], reverse=[True, False, False]), lambda t: t.sort_by(["b", "a"], reverse=[True, False])),
            ("['a','a'] reverse True", lambda t: t.sort_by(["a", "a"], reverse=True), lambda t: t.sort_by("a", reverse=True))):
        st0, r0, e0 = attempt(lambda: ref_call(st_tab()))
        st, r, e = attempt(lambda: rep_call(st_tab()))
        ex += 1
        if st != "ok" or st0 != "ok":
            continue                    # refusing a repeated key is allowed
        if not views_equal(table_view(r), table_view(r0)):
            F.add("form_sort_by", {"call": "sort_by", "keys": label, "how": "a key listed twice"}, view(r), view(r0))
    # keys handed over as UNNAMED vectors (computed keys carry no name), two of them: the join is the join by the names,
    # under every expect word - accepted where that is accepted, refused where that is refused
    def ul():
        return Table({"k": [1, 1, 2, 2], "g": ["x", "y", "x", "y"], "v": [1, 2, 3, 4]})

    def ur():
        return Table({"k": [1, 1, 2, 3], "g": ["x", "y", "y", "x"], "z": [10, 20, 30, 40]})
    for m in ("inner_join", "join", "full_join"):
        for w in ("one_to_one", "many_to_one", "one_to_many", "many_to_many"):
            st0, r0, e0 = attempt(lambda: getattr(ul(), m)(ur(), ["k", "g"], ["k", "g"], expect=w))
            for kname, mkk in (("unnamed equal vectors", lambda t: [Vector(list(t.k)), Vector(list(t.g))]), ("computed vectors", lambda t: [t.k * 1, t.g + ""]),
                               ("a name and an unnamed vector", lambda t: ["k", Vector(list(t.g))])):
                a, b = ul(), ur()
                st, r, e = attempt(lambda: getattr(a, m)(b, mkk(a), mkk(b), expect=w))
                ex += 1
                case = {"call": m, "expect": w, "keys": kname}
                if st != st0:
                    F.add("form_join", case, "accepted" if st == "ok" else type(e).__name__ + ": " + str(e)[:80], "accepted" if st0 == "ok" else "refused (" + type(e0).__name__ + ")")
                elif st == "ok" and not views_equal(table_view(r), table_view(r0)):
                    F.add("form_join", case, view(r), view(r0))
    # a key NAME that two columns carry (the result of an earlier join, of >>) means the first of them - as t[name] does - in
    # every operation that takes column names; the outcome is that of handing over that column object
    def dup():
        return Table([Vector([1, 2, 3, 2], name="id"), Vector(["x", "y", "x", "y"], name="g"), Vector([3, 1, 2, 1], name="id"), Vector([10, 20, 30, 40], name="val")])
    other = lambda: Table({"id": [1, 2, 3], "z": ["p", "q", "r"]})       # noqa: E731
    dup_calls = {"inner_join": lambda t, k: t.inner_join(other(), k, "id", expect="many_to_many"), "join": lambda t, k: t.join(other(), k, "id", expect="many_to_many"),
                 "full_join": lambda t, k: t.full_join(other(), k, "id", expect="many_to_many"),
                 "join (repeated name on the right)": lambda t, k: other().join(t, "id", k, expect="many_to_many"),
                 "inner_join (two keys)": lambda t, k: t.inner_join(Table({"id": [1, 2, 3], "g": ["x", "y", "x"], "z": [1, 2, 3]}), [k, "g"], ["id", "g"], expect="many_to_many"),
                 "sort_by": lambda t, k: t.sort_by(k), "aggregate": lambda t, k: t.aggregate(over=k, sum_over="val"), "window": lambda t, k: t.window(over=k, sum_over="val"),
                 "aggregate value": lambda t, k: t.aggregate(over="g", max_over=k)}
    for cname, call in dup_calls.items():
        t = dup()
        st0, r0, e0 = attempt(lambda: call(t, t.cols()[0]))
        st, r, e = attempt(lambda: call(t, "".join(["i", "d"])))
        ex += 1
        if st != "ok" or st0 != "ok":
            continue
        if not views_equal(table_view(r), table_view(r0)):
            F.add("form_" + cname.split()[0].replace("inner_join", "join").replace("full_join", "join"),
                  {"call": cname, "key": "a stored name that two columns carry", "means": "the first of them"}, view(r), view(r0))
    # joins with a table that has columns but NO rows (a filter that kept nothing): every column of both sides is there,
    # with its name, whatever the names are (repeated, absent)
    def lt():
        return Table({"k": [1, 2, 2], "v": [5, 6, 7]})
    for rnames in (["k", "p", "q"], ["k", "p", "p"], ["k", None, None], ["k", "v", "v"], ["k"]):
        for m in ("inner_join", "join", "full_join"):
            for side in ("empty right", "empty left"):
                z = Table([Vector([], dtype=int, name=nm) for nm in rnames])
                zf = Table([Vector([9, 8], name=nm) for nm in rnames])[[False, False]]
                for zname, zt in (("built empty", z), ("filtered to nothing", zf)):
                    a, b = (lt(), zt) if side == "empty right" else (zt, lt())
                    st, r, e = attempt(lambda: getattr(a, m)(b, "k", "k", expect="many_to_many"))
                    ex += 1
                    if st != "ok" or not isinstance(r, Table):
                        continue
                    case = {"call": m, "side": side, "empty table": zname, "its column names": rnames}
                    want_names = a.column_names() + b.column_names()
                    keeps = (m == "join" and side == "empty right") or m == "full_join"
                    want_rows = 3 if keeps else 0
                    if len(r) == 0 and len(r.cols()) == 0 and want_rows == 0:
                        continue                    # an empty result may be the empty table
                    if r.column_names() != want_names or len(r.cols()) != len(want_names):
                        F.add("form_join", case, {"names": r.column_names(), "shape": list(r.shape)}, {"names": want_names, "rows": want_rows})
                    elif len(r) != want_rows:
                        F.add("form_join", case, {"rows": len(r)}, {"rows": want_rows})
                    elif want_rows:
                        cells = [list(c) for c in r.cols()]
                        lcols = [list(c) for c in lt().cols()]
                        exp = (lcols + [[None] * 3 for _ in rnames]) if side == "empty right" else ([[None] * 3 for _ in rnames] + lcols)
                        if not views_equal(cells, exp):
                            F.add("form_join", case, cells, exp)
    # a table joined with ITSELF is joined with an equal table: the same rows as against a distinct copy, whether the two key
    # sides name the same column or different ones (employee / boss)
    def emp():
        return Table({"id": [1, 2, 3, 4, 5], "boss": [None, 1, 1, 2, 9], "dept": ["a", "b", "a", "b", "a"], "name": ["r", "s", "t", "u", "w"]})
    for m, w in itertools.product(("inner_join", "join", "full_join"), ("many_to_many", "one_to_one", "many_to_one", "one_to_many")):
        for lk, rk in (("boss", "id"), ("id", "boss"), ("id", "id"), ("dept", "dept"), (["dept", "boss"], ["dept", "id"])):
            t = emp()
            before = table_view(t)
            st0, r0, e0 = attempt(lambda: getattr(emp(), m)(emp(), lk, rk, expect=w))
            st, r, e = attempt(lambda: getattr(t, m)(t, lk, rk, expect=w))
            ex += 1
            case = {"call": m, "left_on": lk, "right_on": rk, "expect": w, "how": "t joined with t itself, against t joined with an equal table"}
            if st != st0 or (st == "ok" and not views_equal(table_view(r), table_view(r0))):
                F.add("form_join", case, view(r) if st == "ok" else type(e).__name__ + ": " + str(e)[:80], view(r0) if st0 == "ok" else type(e0).__name__)
            if not views_equal(table_view(t), before):
                F.add("operands_unchanged", case, table_view(t), before)
    return ex


def purity(F, mon):
    """C01: "operations that return a new object never change their operands" - every value-returning public operation of a
    vector, called with arguments of the same, a wider and an incompatible kind, on a free vector and on a live table column:
    afterwards the receiver (contents, name, dtype, fingerprint), the other operand and the table are what they were"""
    from datetime import datetime, timedelta
    ex = 0
    wide = {"int": [0, 7, 1.5, 2 + 1j, True, "z", None], "int?": [0, 1.5, "z", None], "float": [0.0, 2, 1 + 1j, "z"], "str": ["", "z", 3],
            "bool": [True, 2, 1.5, "z"], "date": [date(2000, 1, 1), datetime(2000, 1, 1, 12), 3, "z"]}
    for kind, vals in DATA.items():
        ops = [("dropna", lambda v: v.dropna()), ("isna", lambda v: v.isna()), ("to_object", lambda v: v.to_object()), ("unique", lambda v: v.unique()),
               ("copy", lambda v: v.copy()), ("T", lambda v: v.T), ("sort_by", lambda v: v.sort_by()), ("sort_by desc", lambda v: v.sort_by(reverse=True, na_last=False)),
               ("argsort", lambda v: v.argsort()), ("max", lambda v: v.max()), ("min", lambda v: v.min()), ("sum", lambda v: v.sum()),
               ("mean", lambda v: v.mean()), ("stdev", lambda v: v.stdev()), ("any", lambda v: v.any()), ("all", lambda v: v.all()),
               ("repr", lambda v: repr(v)), ("fingerprint", lambda v: v.fingerprint()), ("schema", lambda v: v.schema()), ("isinstance", lambda v: v.isinstance((int, str))),
               ("pluck", lambda v: v.pluck(0)), ("v[::-1]", lambda v: v[::-1]), ("v[mask]", lambda v: v[[True, False, True]]), ("iter", lambda v: list(v)),
               ("neg", lambda v: -v), ("abs", lambda v: abs(v)), ("v << []", lambda v: v << []), ("v >> v", lambda v: v >> v), ("v @ v", lambda v: v @ v)]
        for target in (int, float, str, bool, complex, date, datetime):
            ops.append(("cast(%s)" % target.__name__, lambda v, target=target: v.cast(target)))
        for x in wide[kind]:
            ops += [("fillna(%r)" % (x,), lambda v, x=x: v.fillna(x)), ("v + %r" % (x,), lambda v, x=x: v + x), ("%r + v" % (x,), lambda v, x=x: x + v),
                    ("v * %r" % (x,), lambda v, x=x: v * x), ("v == %r" % (x,), lambda v, x=x: v == x), ("v < %r" % (x,), lambda v, x=x: v < x),
                    ("v << [%r]" % (x,), lambda v, x=x: v << [x]), ("v + [x]*3", lambda v, x=x: v + [x, x, x]), ("v + Vector", lambda v, x=x: v + Vector([x, x, x], name="o")),
                    ("v >> Vector", lambda v, x=x: v >> Vector([x, x, x], name="o")), ("v ** x", lambda v, x=x: v ** x), ("v / x", lambda v, x=x: v / x)]
        # augmented assignment (v += x ...) is an ordinary binary operation whose result is bound to the name: the OBJECT
        # the name pointed to (still held elsewhere: in a table, by another variable) is an operand like any other
        for iname, ifn in (("+=", operator.iadd), ("-=", operator.isub), ("*=", operator.imul), ("/=", operator.itruediv), ("//=", operator.ifloordiv),
                           ("%=", operator.imod), ("**=", operator.ipow), ("<<=", operator.ilshift), (">>=", operator.irshift), ("&=", operator.iand),
                           ("|=", operator.ior), ("^=", operator.ixor), ("@=", operator.imatmul)):
            for x in wide[kind][:3] + [[1, 2, 3]]:
                ops.append(("v %s %r" % (iname, x), lambda v, ifn=ifn, x=x: ifn(v, x if not isinstance(x, list) else Vector(list(x)))))
        for oname, op in ops:
            for where in ("free vector", "table column"):
                if where == "free vector":
                    t = None
                    v = Vector(list(vals), name="v")
                else:
                    t = Table({"v": list(vals), "k": [1, 2, 3]})
                    v = t.v
                before, fp0 = vec_view(v), v.fingerprint()
                tb = table_view(t) if t is not None else None
                st, r, e = attempt(lambda: op(v))
                ex += 1
                case = {"kind": kind, "operation": oname, "receiver": where, "outcome": "ok" if st == "ok" else type(e).__name__}
                if not views_equal(vec_view(v), before) or v.fingerprint() != fp0:
                    F.add("operands_unchanged", case, vec_view(v), before)
                if t is not None and not views_equal(table_view(t), tb):
                    F.add("operands_unchanged", case, table_view(t), tb)
                if st == "ok" and r is v and oname not in ("schema",):
                    F.add("operands_unchanged", case, "the operation returned its receiver", "a new object")
    return ex


def grid2d(F, mon):
    """C02 / C07 / C08: t[rows, cols] read and written with every combination of key kinds against the plain grid of cells
    (Python list semantics on both axes).  A combination the library rejects is fine as long as nothing changed."""
    ex = 0
    shapes = {"4x3": {"a": [1, 2, 3, 4], "b": [10, 20, 30, 40], "c": [5, 6, 7, 8]}, "1x1": {"a": [1]},
              "3x2 nullable": {"a": [1, None, 3], "b": [None, 20, 30]}}
    for sname, cols0 in shapes.items():
        names = list(cols0)
        nr, nc = len(cols0[names[0]]), len(names)
        rows = {"int": 0, "last": nr - 1, "neg": -1, "-n": -nr, "slice": slice(1, 3), "rev": slice(None, None, -1), "step": slice(0, nr, 2),
                "all": slice(None), "empty": slice(nr, 0), "tail": slice(-2, None), "beyond": slice(1, nr + 5)}
        colks = {"int": 0, "neg": -1, "name": names[-1], "slice": slice(0, 2), "names": tuple(names[::2]), "all": slice(None), "rev": slice(None, None, -1),
                 "step": slice(0, nc, 2), "empty": slice(nc, 0)}
        wcolks = dict(colks, lnames=list(names[::2]), ints=tuple(range(0, nc, 2)), lints=list(range(0, nc, 2)),
                      rnames=tuple(reversed(names)), rlnames=list(reversed(names))[:2], rints=list(range(nc - 1, -1, -1)), tail=slice(1, None))
        # row keys accepted by item ASSIGNMENT only: masks and index lists in every container
        msk = [i % 2 == 0 for i in range(nr)]
        wrows = dict(rows, lmask=list(msk), vmask=Vector(list(msk)), ilist=[0, nr - 1], ivec=Vector([0, nr - 1]), ituple=(0, nr - 1),
                     nomask=[False] * nr, neglist=[-1])

        def col_positions(ck, c):
            if isinstance(c, int) and not isinstance(c, bool):
                return [c % nc], True
            if isinstance(c, str):
                return [names.index(c)], True
            if isinstance(c, slice):
                return list(range(nc))[c], False
            if all(isinstance(x, str) for x in c):
                return [names.index(x) for x in c], False
            return [x % nc for x in c], False

        def row_positions(r):
            if isinstance(r, int):
                return [r % nr], True
            if isinstance(r, slice):
                return list(range(nr))[r], False
            items = list(r)
            if items and all(isinstance(x, bool) for x in items):
                return [i for i, f in enumerate(items) if f], False
            return [x % nr for x in items], False
        for rk, r in wrows.items():
            rp, rs = row_positions(r)
            for ck, c in wcolks.items():
                cp, cs = col_positions(ck, c)
                grid = [list(cols0[nm]) for nm in names]
                case = {"table": sname, "rows": rk, "cols": ck}
                # ---- read
                if ck in colks and rk in rows:
                    t = Table({k: list(v) for k, v in cols0.items()})
                    before = table_view(t)
                    st, x, e = attempt(lambda: t[r, c])
                    ex += 1
                    if st == "ok":
                        def cells(obj):
                            if isinstance(obj, Table):
                                return [list(col) for col in obj.cols()]
                            if isinstance(obj, Vector):
                                return list(obj)
                            return [obj]
                        if not rs and not cs:
                            got, exp = cells(x), [[grid[j][i] for i in rp] for j in cp]
                            empty = not rp or not cp
                        else:
                            got = cells(x)
                            exp = [grid[j][i] for j in cp for i in rp]
                            empty = not exp
                        if empty:
                            flat = got if not (got and isinstance(got[0], list)) else [v for col in got for v in col]
                            if flat:
                                F.add("grid_read", case, got, "an empty selection")
                        elif not views_equal(got, exp):
                            F.add("grid_read", case, got, exp)
                    if not views_equal(table_view(t), before):
                        F.add("operands_unchanged", case, "t[rows, cols] changed the table", "unchanged")
                # ---- write: scalar, and one value per addressed cell
                for vname in ("scalar", "shaped", "table"):
                    if vname == "table" and (rs or cs or not rp or not cp):
                        continue
                    t = Table({k: list(v) for k, v in cols0.items()})
                    before = table_view(t)
                    if vname == "scalar":
                        value = 99
                        newgrid = [list(col) for col in grid]
                        for j in cp:
                            for i in rp:
                                newgrid[j][i] = 99
                    else:
                        vals = [[900 + 10 * jj + ii for ii in range(len(rp))] for jj in range(len(cp))]
                        newgrid = [list(col) for col in grid]
                        for jj, j in enumerate(cp):
                            for ii, i in enumerate(rp):
                                newgrid[j][i] = vals[jj][ii]
                        if rs and cs:
                            continue
                        if rs:
                            value = [v[0] for v in vals]             # one row: a flat list, one value per column
                        elif cs:
                            value = list(vals[0])                    # one column: a flat list, one value per row
                        else:
                            value = [list(v) for v in vals]          # a region: list of columns
                        if vname == "table":
                            value = Table([Vector(list(v), name="src%d" % k) for k, v in enumerate(vals)])   # ... or a table of that shape
                        if len(set(cp)) != len(cp) or len(set(rp)) != len(rp):
                            continue
                    st, _, e = attempt(lambda: t.__setitem__((r, c), value))
                    ex += 1
                    got = [list(col) for col in t.cols()]
                    wcase = dict(case, value=vname)
                    if st != "ok":
                        if not views_equal(table_view(t), before):
                            F.add("grid_atomic", wcase, got, grid)
                        continue
                    if not views_equal(got, newgrid):
                        F.add("grid_write", wcase, got, newgrid)
                    if len({len(col) for col in got}) > 1 or len(t) != nr:
                        F.add("rectangular", wcase, [len(col) for col in got], nr)
                    if t.column_names() != names:
                        F.add("names", wcase, t.column_names(), names)
                # ---- write of a value that does NOT have the shape of the addressed region (a row / a column more or fewer, as
                # lists and as a table): whether the library refuses it or takes it, the table keeps its rows and its rectangle,
                # and a refusal changes nothing
                if rs or cs or not rp or not cp or len(set(cp)) != len(cp) or len(set(rp)) != len(rp):
                    continue
                for mname, dr, dc in (("a row more", 1, 0), ("a row fewer", -1, 0), ("a column more", 0, 1), ("a column fewer", 0, -1), ("two rows more", 2, 0)):
                    h, w = len(rp) + dr, len(cp) + dc
                    if h < 1 or w < 1:
                        continue
                    vals = [[900 + 10 * jj + ii for ii in range(h)] for jj in range(w)]
                    for vname in ("lists", "table"):
                        t = Table({k: list(v) for k, v in cols0.items()})
                        before = table_view(t)
                        value = [list(v) for v in vals] if vname == "lists" else Table([Vector(list(v), name="src%d" % k) for k, v in enumerate(vals)])
                        st, _, e = attempt(lambda: t.__setitem__((r, c), value))
                        ex += 1
                        wcase = dict(case, value=vname + " with " + mname)
                        got = [list(col) for col in t.cols()]
                        lens = {"len(t)": len(t), "shape": list(t.shape), "column lengths": [len(col) for col in got]}
                        if len(t) != nr or list(t.shape) != [nr, nc] or any(len(col) != nr for col in got):
                            F.add("rectangular", wcase, lens, {"len(t)": nr, "shape": [nr, nc], "column lengths": [nr] * nc})
                        elif st != "ok" and not views_equal(table_view(t), before):
                            F.add("grid_atomic", wcase, got, grid)
                        elif st == "ok":
                            F.skip("a value of another shape than the region was taken (" + mname + "); the table kept its rectangle")
    return ex


def held_views(F, mon):
    """C01 (and C02 / C03 / C07): everything DERIVED from a table or vector is an independent value.
       (a) derive, do not look, write the source in every way, then look: the derived object shows the cells of the moment
           it was derived (rows taken with t[i] and not read yet, all rows held at once, slices, masks, selections, T, sorts, casts ...);
       (b) write THROUGH the derived object: the source is unchanged;
       (c) the same derivation asked twice gives two objects that can both be written and do not see each other.
       After the write everything is derived again and must show the new cells with truthful dtypes (C03)."""
    ex = 0
    base = {"a": [1, 2, 3], "b": ["p", "q", "r"], "o": [1, "x", 2.5]}

    def rows_of(cols):
        return [[cols[k][i] for k in cols] for i in range(3)]
    derivs = {
        "t[1] (unread Row)": (lambda t: t[1], lambda g: list(rows_of(g)[1])),
        "t[-1]": (lambda t: t[-1], lambda g: list(rows_of(g)[2])),
        # a held row answers by field name as it did when it was taken, whatever the table's columns are called later
        "t[1] read by field names": (lambda t: (lambda r=t[1]: [r.a, r.b, r["a"], list(r)]), lambda g: [g["a"][1], g["b"][1], g["a"][1], rows_of(g)[1]]),
        "[t[i] for i] (all rows held)": (lambda t: [t[i] for i in range(3)], lambda g: rows_of(g)),
        # (not list(iter(t)): the iterator of the pinned tree deliberately re-points ONE Row object - "no object creation in the
        #  loop" - so rows kept from one iteration all show the last row; the statement compares rows as they are obtained)
        "[tuple(r) for r in t]": (lambda t: [tuple(r) for r in t], lambda g: [tuple(r) for r in rows_of(g)]),
        "next(iter(t))": (lambda t: next(iter(t)), lambda g: rows_of(g)[0]),
        "t[1:]": (lambda t: t[1:], lambda g: [g[k][1:] for k in g]),
        "t[::-1]": (lambda t: t[::-1], lambda g: [g[k][::-1] for k in g]),
        "t[mask]": (lambda t: t[[True, False, True]], lambda g: [[g[k][0], g[k][2]] for k in g]),
        "t[('a','o')]": (lambda t: t[("a", "o")], lambda g: [g["a"], g["o"]]),
        "t[0:2, 'a']": (lambda t: t[0:2, "a"], lambda g: g["a"][0:2]),
        "t[1, :]": (lambda t: t[1, :], lambda g: rows_of(g)[1]),
        "t[:, 'a']": (lambda t: t[:, "a"], lambda g: g["a"]),
        "t[:, 0]": (lambda t: t[:, 0], lambda g: g["a"]),
        "t['o', :]": (lambda t: t["o", :], lambda g: g["o"]),
        "t[0:, 'a']": (lambda t: t[0:, "a"], lambda g: g["a"]),
        "t[:, ('a', 'b')]": (lambda t: t[:, ("a", "b")], lambda g: [g["a"], g["b"]]),
        "t[:, 0:2]": (lambda t: t[:, 0:2], lambda g: [g["a"], g["b"]]),
        "t[:]": (lambda t: t[:], lambda g: [g[k] for k in g]),
        "t[:, :]": (lambda t: t[:, :], lambda g: [g[k] for k in g]),
        "t.copy()": (lambda t: t.copy(), lambda g: [g[k] for k in g]),
        "t.T": (lambda t: t.T, lambda g: rows_of(g)),
        "t >> vec": (lambda t: t >> Vector([7, 8, 9], name="z"), lambda g: [g[k] for k in g] + [[7, 8, 9]]),
        "t << row": (lambda t: t << [9, "s", 9], lambda g: [g["a"] + [9], g["b"] + ["s"], g["o"] + [9]]),
        "t.sort_by('a', reverse=True)": (lambda t: t.sort_by("a", reverse=True), None),
        "t.a[:]": (lambda t: t.a[:], lambda g: g["a"]),
        "t.a.copy()": (lambda t: t.a.copy(), lambda g: g["a"]),
        "t.a + 0": (lambda t: t.a + 0, lambda g: g["a"]),
        "t.a.to_object()": (lambda t: t.a.to_object(), lambda g: g["a"]),
        "t.o.to_object()": (lambda t: t.o.to_object(), lambda g: g["o"]),
        "t.o.copy()": (lambda t: t.o.copy(), lambda g: g["o"]),
        "t.a.cast(float)": (lambda t: t.a.cast(float), lambda g: [None if x is None else float(x) for x in g["a"]]),
        "t.b.cast(str)": (lambda t: t.b.cast(str), lambda g: g["b"]),
        "t.a.fillna(0)": (lambda t: t.a.fillna(0), lambda g: [0 if x is None else x for x in g["a"]]),
        "t.a.dropna()": (lambda t: t.a.dropna(), lambda g: [x for x in g["a"] if x is not None]),
        "t.a.unique()": (lambda t: t.a.unique(), lambda g: g["a"]),
        "t.a.sort_by()": (lambda t: t.a.sort_by(), lambda g: sorted(x for x in g["a"] if x is not None) + [x for x in g["a"] if x is None]),
        "t.a << []": (lambda t: t.a << [], lambda g: g["a"]),
        "t.a.T": (lambda t: t.a.T, lambda g: g["a"]),
        # copies made by the standard library's protocols (where the library supports them at all): independent values too
        "copy.copy(t)": (lambda t: copy.copy(t), lambda g: [g[k] for k in g]),
        "copy.deepcopy(t)": (lambda t: copy.deepcopy(t), lambda g: [g[k] for k in g]),
        "pickle round trip of t": (lambda t: pickle.loads(pickle.dumps(t)), lambda g: [g[k] for k in g]),
        "copy.copy(t.a)": (lambda t: copy.copy(t.a), lambda g: g["a"]),
        "copy.deepcopy(t.o)": (lambda t: copy.deepcopy(t.o), lambda g: g["o"]),
        "pickle round trip of t.a": (lambda t: pickle.loads(pickle.dumps(t.a)), lambda g: g["a"]),
        "copy.copy(t[1:])": (lambda t: copy.copy(t[1:]), lambda g: [g[k][1:] for k in g]),
    }
    writes = {
        "t[1, 'a'] = 99": (lambda t: t.__setitem__((1, "a"), 99), lambda g: g["a"].__setitem__(1, 99)),
        "t.a[1] = 99": (lambda t: t.a.__setitem__(1, 99), lambda g: g["a"].__setitem__(1, 99)),
        "t[1] = row": (lambda t: t.__setitem__(1, [99, "CH", 99]), lambda g: [g[k].__setitem__(1, x) for k, x in zip(g, [99, "CH", 99])]),
        "t.a[1] = 2.5 (promotes)": (lambda t: t.a.__setitem__(1, 2.5), lambda g: g.__setitem__("a", [1.0, 2.5, 3.0])),
        "t[1, 'a'] = None": (lambda t: t.__setitem__((1, "a"), None), lambda g: g["a"].__setitem__(1, None)),
        "t.a = new column": (lambda t: setattr(t, "a", [7, 8, 9]), lambda g: g.__setitem__("a", [7, 8, 9])),
        "t[:, 'o'] = 0": (lambda t: t.__setitem__((slice(None), "o"), 0), lambda g: g.__setitem__("o", [0, 0, 0])),
        "t.o[0] = 'zero'": (lambda t: t.o.__setitem__(0, "zero"), lambda g: g["o"].__setitem__(0, "zero")),
        "rename_column a -> z": (lambda t: t.rename_column("a", "z"), None),
        "rename_columns a <-> b": (lambda t: t.rename_columns(["a", "b"], ["b", "a"]), None),
        "t['a'].name = 'z'": (lambda t: setattr(t["a"], "name", "z"), None),
    }

    def look(obj):
        if callable(obj) and not isinstance(obj, Vector):
            return obj()
        if isinstance(obj, list):
            return [look(x) for x in obj]
        if isinstance(obj, Table):
            return [list(c) for c in obj.cols()]
        if isinstance(obj, Vector):
            return list(obj)
        return obj
    for dname, (derive, expect) in derivs.items():
        for wname, (write, gwrite) in writes.items():
            t = Table({k: list(v) for k, v in base.items()})
            grid = {k: list(v) for k, v in base.items()}
            st, d, e = attempt(lambda: derive(t))
            if st != "ok":
                continue
            st, _, e = attempt(lambda: write(t))
            ex += 1
            if st != "ok":
                continue
            case = {"derived by": dname, "then written": wname}
            if expect is not None:
                exp = expect(grid)
                stl, got, el = attempt(lambda: look(d))
                if stl != "ok":
                    F.add("derived_independent", case, "reading the derived object raised " + type(el).__name__ + ": " + str(el)[:80], exp)
                elif not views_equal(got, exp):
                    F.add("derived_independent", case, got, exp)
            if gwrite is None:
                continue                    # a rename: nothing to re-derive by the old names
            # derive again: the new cells, truthful dtypes
            gwrite(grid)
            st, d2, e = attempt(lambda: derive(t))
            if st == "ok" and expect is not None:
                exp2 = expect(grid)
                if not views_equal(look(d2), exp2):
                    F.add("derived_current", case, look(d2), exp2)
            if st == "ok":
                for x in (d2 if isinstance(d2, list) else [d2]):
                    if isinstance(x, Vector):
                        mon.see(x, "derived after a write: " + dname)
                        if not isinstance(x, Table) and len(x) > 1:
                            try:
                                mon.see(x[0:2], "slice of " + dname)
                            except Exception:      # noqa: BLE001
                                pass
        # (b) write through the derived object; (c) twice
        t = Table({k: list(v) for k, v in base.items()})
        before = table_view(t)
        st, d, e = attempt(lambda: derive(t))
        st2, d2, e2 = attempt(lambda: derive(t))
        if st != "ok" or st2 != "ok":
            continue
        ex += 1
        case = {"derived by": dname}
        objs = d if isinstance(d, list) else [d]
        objs2 = d2 if isinstance(d2, list) else [d2]
        for x, y in zip(objs, objs2):
            if x is y and isinstance(x, Vector):
                F.add("derived_independent", case, "the same derivation twice returned one object", "two objects")
            if isinstance(x, Vector) and type(x).__name__ != "Row" and len(x) > 0:
                snap = look(y)
                try:
                    if isinstance(x, Table):
                        x[0, 0] = x.cols()[0][0]
                        x[0, 0] = 99
                    else:
                        keep = list(x)[0]
                        x[0] = keep
                        x[0] = 99 if not isinstance(keep, str) else "CH"
                except Exception as ex_:      # noqa: BLE001
                    if type(ex_).__name__ == "AliasError":
                        F.add("derived_independent", case, "AliasError writing a derived object (a second, equal derivation is alive)", "writable")
                    continue
                if not views_equal(look(y), snap):
                    F.add("derived_independent", case, {"the twin derivation changed": look(y)}, snap)
        if not views_equal(table_view(t), before):
            F.add("derived_independent", case, {"writing the derived object changed the source": table_view(t)}, before)
    # the same derivation before and after a write whose new value COLLIDES with the old one under hash() (-1 / -2, 0 / 2**61-1):
    # whatever the first derivation left behind (a memo validated by a fingerprint), the second shows the current cells
    for old_v, new_v in ((-1, -2), (-2, -1), (0, 2 ** 61 - 1), (-1.0, -2.0)):
        for dname, (derive, expect) in derivs.items():
            cells = {"a": [old_v, 5, 7], "b": ["p", "q", "r"], "o": [1, "x", 2.5]}
            t = Table({k: list(v) for k, v in cells.items()})
            st, d0, e = attempt(lambda: look(derive(t)))
            if st != "ok":
                continue
            for wname, write in (("t[0, 'a'] = v", lambda: t.__setitem__((0, "a"), new_v)), ("t.a[0] = v", lambda: t.a.__setitem__(0, new_v))):
                t = Table({k: list(v) for k, v in cells.items()})
                attempt(lambda: look(derive(t)))
                attempt(lambda: t.fingerprint())
                st, _, e = attempt(write)
                if st != "ok":
                    continue
                cur = {"a": [new_v, 5, 7], "b": ["p", "q", "r"], "o": [1, "x", 2.5]}
                st1, d1, e1 = attempt(lambda: look(derive(t)))
                st2, d2, e2 = attempt(lambda: look(derive(Table({k: list(v) for k, v in cur.items()}))))
                ex += 1
                if st1 != st2 or (st1 == "ok" and not views_equal(d1, d2)):
                    F.add("derived_current", {"derived by": dname, "twice, with in between": wname, "old / new value": [old_v, new_v]},
                          d1 if st1 == "ok" else type(e1).__name__, d2 if st2 == "ok" else type(e2).__name__)
    # homogeneous tables: a row has a dtype of its own (<int>); a promoting / None write must be visible in the dtype of every
    # row (and slice of a row) taken afterwards, whatever was read before
    from datetime import datetime as _dtm
    for label, build, writes_d in (("date column with a gap", lambda: Table({"d": [date(2020, 1, 1), None, date(2020, 1, 3)], "x": [4, 5, 6]}),
                                    (("t[0, 'd'] = datetime", lambda t: t.__setitem__((0, "d"), _dtm(2021, 1, 1, 5))), ("t[2] = [datetime, 9]", lambda t: t.__setitem__(2, [_dtm(2021, 1, 1, 5), 9])),
                                     ("t.d[0] = datetime", lambda t: t.d.__setitem__(0, _dtm(2021, 1, 1, 5))))),
                                   ("int column with a gap and a zero", lambda: Table({"d": [0, None, 3], "x": [4, 5, 6]}),
                                    (("t[2, 'd'] = 2.5", lambda t: t.__setitem__((2, "d"), 2.5)), ("t[2, 'd'] = 1j", lambda t: t.__setitem__((2, "d"), 1j)),
                                     ("t.d[2] = 1j", lambda t: t.d.__setitem__(2, 1j))))):
        for wname, write in writes_d:
            t = build()
            old_cells = [list(c) for c in t.cols()]
            st, _, e = attempt(lambda: write(t))
            ex += 1
            case = {"table": label, "written": wname, "outcome": "ok" if st == "ok" else type(e).__name__}
            cols = [list(c) for c in t.cols()]
            if len({len(c) for c in cols}) != 1 or len(t) != 3 or t.shape != (3, 2):
                F.add("rectangular", case, {"column lengths": [len(c) for c in cols], "len": len(t), "shape": t.shape}, "3 rows in every column")
            elif st == "ok":
                # the cells that were not addressed are what they were, converted at most (None stays None, a zero stays a zero)
                for ci, (new, old) in enumerate(zip(cols, old_cells)):
                    for ri, (a_, b_) in enumerate(zip(new, old)):
                        if (a_ is None) != (b_ is None) and not (wname.startswith("t[%d" % ri) or ("[%d]" % ri in wname and ci == 0)):
                            F.add("derived_current", case, {"column": ci, "row": ri, "now": repr(a_)}, repr(b_))
            for r in range(len(t)):
                mon.see(t[r], "row after " + wname)
            mon.see(t, "table after " + wname)
    for wname, write, newcol in (("t.a[1] = 2.5", lambda t: t.a.__setitem__(1, 2.5), [1.0, 2.5, 3.0]), ("t[1, 'a'] = None", lambda t: t.__setitem__((1, "a"), None), [1, None, 3]),
                                 ("t[1] = [2.5, None]", lambda t: t.__setitem__(1, [2.5, None]), None), ("t.a = floats", lambda t: setattr(t, "a", [1.5, 2.5, 3.5]), [1.5, 2.5, 3.5])):
        for pre in ("nothing", "t[1]", "for r in t", "t[0][0:2]"):
            t = Table({"a": [1, 2, 3], "x": [4, 5, 6]})
            if pre == "t[1]":
                list(t[1])
            elif pre == "for r in t":
                [tuple(r) for r in t]
            elif pre == "t[0][0:2]":
                list(t[0][0:2])
            st, _, e = attempt(lambda: write(t))
            ex += 1
            if st != "ok":
                continue
            for i in range(3):
                for label, mk in (("t[%d]" % i, lambda: t[i]), ("t[%d][0:2]" % i, lambda: t[i][0:2]), ("t[%d][[0, 1]]" % i, lambda: t[i][[0, 1]]), ("t[%d, :]" % i, lambda: t[i, :])):
                    st, r, e = attempt(mk)
                    if st == "ok" and isinstance(r, Vector):
                        exp = [list(c)[i] for c in t.cols()]
                        if not views_equal(list(r), exp):
                            F.add("derived_current", {"read before": pre, "written": wname, "taken": label}, list(r), exp)
                        mon.see(r, "row after '%s' (read before: %s)" % (wname, pre))
    return ex


def history_reads(F, mon):
    """read - write - write - read (and read - write - read): whatever a value-returning operation, a broadcast method or a
    broadcast property answered before, after the writes it answers what a freshly built vector with the current cells answers"""
    from datetime import datetime
    ex = 0
    kinds = {"int": ([3, 1, 2], [7, 9]), "float": ([1.5, 0.5, 2.5], [7.5, 9.25]), "str": (["b", "a", "c"], ["zz", "Q q"]),
             "date": ([date(2020, 1, 2), date(2019, 5, 6), date(2021, 7, 8)], [date(1999, 12, 31), date(2024, 2, 29)]),
             "datetime": ([datetime(2020, 1, 2, 3), datetime(2019, 5, 6, 7), datetime(2021, 7, 8, 9)], [datetime(1999, 12, 31, 23), datetime(2024, 2, 29, 1)]),
             "bool": ([True, False, True], [False, True]), "int?": ([3, None, 2], [7, None])}
    reads = {"list": lambda v: list(v), "repr": lambda v: repr(v), "fingerprint": lambda v: v.fingerprint(), "sum": lambda v: v.sum(), "max": lambda v: v.max(),
             "min": lambda v: v.min(), "mean": lambda v: v.mean(), "stdev": lambda v: v.stdev(), "sort_by": lambda v: list(v.sort_by()), "unique": lambda v: list(v.unique()),
             "isna": lambda v: list(v.isna()), "neg": lambda v: list(-v), "v == v[0]": lambda v: list(v == list(v)[0]), "v + v": lambda v: list(v + v),
             "argsort": lambda v: v.argsort(), "cast(str)": lambda v: list(v.cast(str)), "to_object": lambda v: list(v.to_object()), "any": lambda v: v.any()}
    for attr in ("year", "month", "day", "hour", "real", "imag", "numerator", "weekday", "isoformat", "upper", "lower", "strip", "title", "bit_length",
                 "is_integer", "conjugate", "toordinal", "isdigit", "capitalize", "date"):
        reads["." + attr] = (lambda v, attr=attr: (lambda r: list(r() if callable(r) else r))(getattr(v, attr)))
    for kind, (vals, news) in kinds.items():
        for rname, read in reads.items():
            for hist in ("r w w r", "r w r", "r w w-back r", "r w r w r"):
                v = Vector(list(vals), name="h")
                cur = list(vals)
                st0, _, _ = attempt(lambda: read(v))
                if st0 != "ok":
                    break
                steps = hist.split()[1:]
                ok = True
                k = 0
                for stp in steps:
                    if stp == "w":
                        x = news[k % len(news)]
                        k += 1
                        try:
                            v[0] = x
                        except Exception:      # noqa: BLE001
                            ok = False
                            break
                        cur[0] = x
                    elif stp == "w-back":
                        v[0] = vals[0]
                        cur[0] = vals[0]
                    else:
                        st, got, e = attempt(lambda: read(v))
                        stf, exp, ef = attempt(lambda: read(Vector(list(cur), name="h")))
                        ex += 1
                        if st != stf or (st == "ok" and not views_equal(got, exp) and repr(got) != repr(exp)):
                            F.add("history_read", {"kind": kind, "read": rname, "history": hist}, got if st == "ok" else type(e).__name__,
                                  exp if stf == "ok" else type(ef).__name__)
                if not ok:
                    continue
    return ex


def odd_operands(F, mon):
    """scalars that are iterable (bytes, bytearray, str) are scalars; a None scalar compares; one-position index selections;
    the positional order of the aggregation arguments"""
    ex = 0
    for vals, x, op in (([2, 3], b"ab", operator.mul), ([2, 3], bytearray(b"ab"), operator.mul), ([2, 3], "ab", operator.mul), ([b"ab", b"cd"], b"ef", operator.add),
                        (["ab", "cd"], "ef", operator.add), ([b"ab", b"cd"], b"ab", operator.eq), (["ab", "cd"], "ab", operator.eq), ([b"a", b"b"], b"b", operator.lt)):
        for side in ("v op x", "x op v"):
            try:
                exp = [op(e, x) if side == "v op x" else op(x, e) for e in vals]
            except Exception:      # noqa: BLE001
                continue
            st, r, e = attempt(lambda: op(Vector(list(vals)), x) if side == "v op x" else op(x, Vector(list(vals))))
            ex += 1
            if st == "ok" and isinstance(r, Vector) and not views_equal(list(r), exp):
                F.add("form_elementwise", {"values": repr(vals), "scalar": repr(x), "op": op.__name__, "written": side}, list(r), exp)
    # operators whose Python scalar form ACCEPTS None ('%s' % None): None still propagates, on either side, in every operand form
    fmt = ["a=%s", "b=%s", "c=%s"]
    for right, exp in (([1, None, 3], ["a=1", None, "c=3"]), ([None, None, None], [None, None, None]), (["x", "y", None], ["a=x", "b=y", None])):
        for fname, mk in (("Vector", lambda: Vector(list(right))), ("list", lambda: list(right)), ("tuple", lambda: tuple(right))):
            st, r, e = attempt(lambda: Vector(list(fmt)) % mk())
            ex += 1
            if st != "ok" or not isinstance(r, Vector) or list(r) != exp:
                F.add("form_none_propagates", {"left": repr(fmt), "op": "%", "right": repr(right), "right form": fname},
                      list(r) if st == "ok" and isinstance(r, Vector) else repr(e or r), exp)
            elif any(x is None for x in exp) and r.schema() is not None and not r.schema().nullable:
                F.add("form_none_propagates", {"left": repr(fmt), "op": "%", "right": repr(right), "right form": fname}, str(r.schema()), "a nullable dtype")
    st, r, e = attempt(lambda: Vector(["a=%s", None, "c=%s"]) % Vector([1, 2, None]))
    ex += 1
    if st != "ok" or list(r) != ["a=1", None, None]:
        F.add("form_none_propagates", {"left": "['a=%s', None, 'c=%s']", "op": "%", "right": "[1, 2, None]"}, list(r) if st == "ok" else repr(e), ["a=1", None, None])
    for vals in ([1, None, 3], ["a", None], [None, None], [1.5, 2.5]):
        for opn, op in (("eq", operator.eq), ("ne", operator.ne)):
            st, r, e = attempt(lambda: op(Vector(list(vals)), None))
            ex += 1
            exp = [False if e_ is None else op(e_, None) for e_ in vals]
            if st != "ok" or not isinstance(r, Vector) or list(r) != exp:
                F.add("form_compare_none", {"values": repr(vals), "op": opn, "scalar": None}, list(r) if st == "ok" and isinstance(r, Vector) else repr(e or r), exp)
    # one-position index selections (cells that are themselves iterable: strings, lists)
    for vals in (["ab", "cd", "ef"], [[1, 2], [3], [4, 5, 6]], [1, 2, 3], [(1, 2), (3, 4), (5, 6)]):
        for key in ([1], [-1], [0, 0], [2, 0]):
            for kf, mk in (("list", lambda: list(key)), ("Vector", lambda: Vector(list(key)))):
                st, r, e = attempt(lambda: Vector(list(vals), name="v")[mk()])
                ex += 1
                exp = [vals[i] for i in key]
                if st == "ok" and (not isinstance(r, Vector) or not views_equal(list(r), exp)):
                    F.add("form_index", {"values": repr(vals), "key": key, "key form": kf}, list(r) if isinstance(r, Vector) else repr(r), exp)
                t = Table({"s": list(vals), "n": [10, 20, 30]})
                st, r, e = attempt(lambda: t[mk()])
                ex += 1
                if st == "ok" and r is not None:
                    exp_t = [[vals[i] for i in key], [[10, 20, 30][i] for i in key]]
                    if not isinstance(r, Table) or not views_equal([list(c) for c in r.cols()], exp_t):
                        F.add("form_index", {"table column": repr(vals), "key": key, "key form": kf}, view(r), exp_t)
    # positional order of the aggregation arguments: (over, sum, mean, min, max, stdev, count, apply)
    order = ["sum", "mean", "min", "max", "stdev", "count"]
    for method in ("aggregate", "window"):
        for i, f in enumerate(order):
            t = Table({"k": ["a", "b", "a", "b", "a"], "x": [1, 2, 4, 8, 16]})
            args = [None] * 6
            args[i] = "x"
            st, r, e = attempt(lambda: getattr(t, method)("k", *args))
            st0, r0, e0 = attempt(lambda: getattr(t, method)("k", **{f + "_over": "x"}))
            ex += 1
            if st0 != "ok":
                continue
            if st != "ok" or not views_equal(table_view(r), table_view(r0)):
                F.add("form_" + method, {"call": "%s('k', %s)" % (method, ", ".join(repr(a) for a in args)), "position": i + 2, "means": f + "_over"},
                      view(r) if st == "ok" else type(e).__name__, view(r0))
    return ex


def self_values(F, mon):
    """C08 / C01: the value of an assignment is what it holds when the assignment is made - also when it is made of the
    target's OWN live columns, rows or elements (swapping two columns, rotating rows, reversing a vector in place).
    Python evaluates the right-hand side before it stores anything; the outcome is that of the same assignment with the
    values copied out beforehand."""
    ex = 0
    cols0 = {"a": [1, 2, 3], "b": [10, 20, 30], "c": [7, 8, 9]}

    def T():
        return Table({k: list(v) for k, v in cols0.items()})
    forms = {
        "t[:, ('a','b')] = [t.b, t.a]": (lambda t: t.__setitem__((slice(None), ("a", "b")), [t.b, t.a]), {"a": cols0["b"], "b": cols0["a"]}),
        "t[:, ('a','b','c')] = [t.c, t.a, t.b]": (lambda t: t.__setitem__((slice(None), ("a", "b", "c")), [t.c, t.a, t.b]), {"a": cols0["c"], "b": cols0["a"], "c": cols0["b"]}),
        "t[:, 0:2] = [t.b, t.a]": (lambda t: t.__setitem__((slice(None), slice(0, 2)), [t.b, t.a]), {"a": cols0["b"], "b": cols0["a"]}),
        "t[:, ('a','b')] = [t['b'], t['a']]": (lambda t: t.__setitem__((slice(None), ("a", "b")), [t["b"], t["a"]]), {"a": cols0["b"], "b": cols0["a"]}),
        "t[:, ('a','b')] = (t.b, t.a)": (lambda t: t.__setitem__((slice(None), ("a", "b")), (t.b, t.a)), {"a": cols0["b"], "b": cols0["a"]}),
        "t[:, ('a','b')] = t[('b','a')]": (lambda t: t.__setitem__((slice(None), ("a", "b")), t[("b", "a")]), {"a": cols0["b"], "b": cols0["a"]}),
        "t[:, ('b','a')] = [t.a, t.b]": (lambda t: t.__setitem__((slice(None), ("b", "a")), [t.a, t.b]), {"a": cols0["b"], "b": cols0["a"]}),
        "t[0:2, ('a','b')] = [t.b[0:2], t.a[0:2]]": (lambda t: t.__setitem__((slice(0, 2), ("a", "b")), [t.b[0:2], t.a[0:2]]),
                                                      {"a": [10, 20, 3], "b": [1, 2, 30]}),
        "t[0:2] = [t[1], t[0]]": (lambda t: t.__setitem__(slice(0, 2), [t[1], t[0]]), {"a": [2, 1, 3], "b": [20, 10, 30], "c": [8, 7, 9]}),
        "t[0:2] = t[1:3]": (lambda t: t.__setitem__(slice(0, 2), t[1:3]), {"a": [2, 3, 3], "b": [20, 30, 30], "c": [8, 9, 9]}),
        "t[1] = t[0]": (lambda t: t.__setitem__(1, t[0]), {"a": [1, 1, 3], "b": [10, 10, 30], "c": [7, 7, 9]}),
        "t[::-1] = t": (lambda t: t.__setitem__(slice(None, None, -1), t), {"a": [3, 2, 1], "b": [30, 20, 10], "c": [9, 8, 7]}),
        "t[:] = t[::-1]": (lambda t: t.__setitem__(slice(None), t[::-1]), {"a": [3, 2, 1], "b": [30, 20, 10], "c": [9, 8, 7]}),
    }
    for label, (write, changed) in forms.items():
        t = T()
        st, _, e = attempt(lambda: write(t))
        ex += 1
        got = {nm: list(c) for nm, c in zip(t.column_names(), t.cols())}
        if st != "ok":
            if got != cols0:
                F.add("grid_atomic", {"assignment": label, "outcome": type(e).__name__}, got, cols0)
            continue
        want = dict(cols0, **changed)
        if got != want:
            F.add("grid_write", {"assignment": label, "how": "the value is made of the target's own columns / rows"}, got, want)
    vforms = {
        "v[0:2] = v[1:3]": (lambda v: v.__setitem__(slice(0, 2), v[1:3]), [2, 3, 3, 4]), "v[::-1] = v": (lambda v: v.__setitem__(slice(None, None, -1), v), [4, 3, 2, 1]),
        "v[:] = v[::-1]": (lambda v: v.__setitem__(slice(None), v[::-1]), [4, 3, 2, 1]), "v[[0, 1, 2, 3]] = v[[3, 2, 1, 0]]": (lambda v: v.__setitem__([0, 1, 2, 3], v[[3, 2, 1, 0]]), [4, 3, 2, 1]),
        "v[[3, 2, 1, 0]] = v": (lambda v: v.__setitem__([3, 2, 1, 0], v), [4, 3, 2, 1]), "v[1:] = v[:-1]": (lambda v: v.__setitem__(slice(1, None), v[:-1]), [1, 1, 2, 3]),
        "v[mask] = v[other mask]": (lambda v: v.__setitem__([True, True, False, False], v[[False, False, True, True]]), [3, 4, 3, 4]),
        "v[:] = (x for x in v)": (lambda v: v.__setitem__(slice(None), (x for x in reversed(list(v)))), [4, 3, 2, 1]),
        "v[::-1] = iter(v)": (lambda v: v.__setitem__(slice(None, None, -1), iter(v)), [4, 3, 2, 1]),
    }
    for label, (write, want) in vforms.items():
        v = Vector([1, 2, 3, 4], name="v")
        st, _, e = attempt(lambda: write(v))
        ex += 1
        if st != "ok":
            if list(v) != [1, 2, 3, 4]:
                F.add("form_assign_atomic", {"assignment": label, "outcome": type(e).__name__}, list(v), [1, 2, 3, 4])
            continue
        if list(v) != want:
            F.add("form_assign", {"assignment": label, "how": "the value is made of the target's own elements"}, list(v), want)
    return ex


def mixed_shapes(F, mon):
    """C02: structure operations on tables whose ROWS mix kinds (a date next to a datetime, an int next to a float, a bool
    next to an int) and whose column NAMES repeat or are absent: transposing twice gives back the original cells - the same
    objects' values AND types -, rows are the tuples of the cells, << and >> keep every column"""
    from datetime import datetime as _dtm
    ex = 0
    tables = {
        "date | datetime": [[date(2024, 5, 1), date(2024, 5, 2)], [_dtm(2024, 1, 1, 5), _dtm(2024, 1, 2, 6)]],
        "int | float": [[1, 2], [0.5, 2.0]], "bool | int": [[True, False], [1, 0]], "int | float | complex": [[1, 2], [1.0, 2.5], [1j, 2j]],
        "int | None-only": [[1, 2], [None, None]], "int? | float": [[1, None], [0.5, 1.0]], "date | datetime | None": [[date(2024, 5, 1), None], [None, _dtm(2024, 1, 2, 6)]],
        "bool | float": [[True, False], [1.0, 0.0]], "str | int": [["a", "b"], [1, 2]], "one row": [[date(2024, 5, 1)], [_dtm(2024, 1, 1, 5)], [1]],
    }

    def typed(cols):
        return [[(type(x).__name__, x) for x in col] for col in cols]
    for tname, cols in tables.items():
        for names in (["c%d" % i for i in range(len(cols))], ["id"] * len(cols), [None] * len(cols), ["id", "ID", "id"][:len(cols)]):
            def build():
                return Table([Vector(list(col), name=nm) for col, nm in zip(cols, names)])
            st, t, e = attempt(build)
            if st != "ok":
                continue
            case = {"table": tname, "names": names}
            nr, nc = len(cols[0]), len(cols)
            st, r, e = attempt(lambda: t.T.T)
            ex += 1
            if st == "ok" and isinstance(r, Table):
                got = [list(c) for c in r.cols()]
                if typed(got) != typed(cols) and not all(views_equal(g, c) and [type(x) for x in g] == [type(x) for x in c] for g, c in zip(got, cols)):
                    F.add("transpose", case, [[repr(x) for x in c] for c in got], [[repr(x) for x in c] for c in cols])
            for i in range(nr):
                st, row, e = attempt(lambda: list(t[i]))
                want = [col[i] for col in cols]
                if st == "ok" and (not views_equal(row, want) or [type(x) for x in row] != [type(x) for x in want]):
                    F.add("row_view", dict(case, row=i), [repr(x) for x in row], [repr(x) for x in want])
            st, rows, e = attempt(lambda: [list(rw) for rw in t])
            want_rows = [[col[i] for col in cols] for i in range(nr)]
            if st == "ok" and [[(type(x).__name__, repr(x)) for x in rw] for rw in rows] != [[(type(x).__name__, repr(x)) for x in rw] for rw in want_rows]:
                F.add("row_view", dict(case, how="iteration"), [[repr(x) for x in rw] for rw in rows], [[repr(x) for x in rw] for rw in want_rows])
            # << keeps every column (a row of the table's own cells appended), >> appends
            new_row = [col[0] for col in cols]
            for label, mk, exp in (("t << row", lambda: build() << list(new_row), [col + [col[0]] for col in cols]),
                                   ("t << t", lambda: build() << build(), [col + col for col in cols]),
                                   ("t << t[0:1]", lambda: build() << build()[0:1], [col + col[0:1] for col in cols]),
                                   ("t >> t", lambda: build() >> build(), cols + cols),
                                   ("t >> {name: cells}", lambda: build() >> {(names[0] or "z"): list(cols[0])}, cols + [cols[0]])):
                st, r, e = attempt(mk)
                ex += 1
                if st != "ok" or not isinstance(r, Table):
                    continue
                got = [list(c) for c in r.cols()]
                lens = {"shape": list(r.shape), "len": len(r), "column lengths": [len(c) for c in got]}
                if len({len(c) for c in got}) > 1 or len(r) != len(exp[0]) or list(r.shape) != [len(exp[0]), len(exp)]:
                    F.add("rectangular", dict(case, operation=label), lens, {"shape": [len(exp[0]), len(exp)]})
                elif not views_equal(got, exp):
                    F.add("append_rows" if "<<" in label else "stack", dict(case, operation=label), [[repr(x) for x in c] for c in got], [[repr(x) for x in c] for c in exp])
                for c in r.cols():
                    mon.see(c, label + " on a table of mixed rows")
    return ex


def promotions(F, mon):
    """C18 / C03 / C01: an in-place write that changes a vector's kind or nullability (int -> float -> complex, bool -> int,
    date -> datetime, anything -> object, a first None) is still a write to THAT vector: its name, the table's column names
    and the other cells stay, the dtype is truthful, and no other column is touched - through every write form"""
    from datetime import datetime as _dtm
    ex = 0
    steps = {"int -> float": ([1, 2, 3], 2.5), "int -> complex": ([1, 2, 3], 2j), "float -> complex": ([1.5, 2.5, 3.5], 1j), "bool -> int": ([True, False, True], 7),
             "date -> datetime": ([date(2020, 1, 1), date(2020, 1, 2), date(2020, 1, 3)], _dtm(2021, 5, 6, 7, 8)), "int -> object": ([1, 2, 3], "s"),
             "str -> object": (["a", "b", "c"], 5), "int -> int?": ([1, 2, 3], None), "date -> date?": ([date(2020, 1, 1), date(2020, 1, 2), date(2020, 1, 3)], None),
             "float? -> complex?": ([1.5, None, 3.5], 1j), "date? -> datetime?": ([date(2020, 1, 1), None, date(2020, 1, 3)], _dtm(2021, 5, 6, 7, 8)),
             "int -> float (nan)": ([1, 2, 3], float("nan")), "int -> float (inf)": ([1, 2, 3], float("inf")), "bool -> float": ([True, False, True], 0.5)}
    # no-argument methods / properties of the cell types: after the promotion they are still applied to every cell
    probes = ("isoformat", "year", "month", "day", "weekday", "toordinal", "hour", "minute", "date", "is_integer", "hex", "real", "imag", "conjugate",
              "bit_length", "upper", "lower", "title", "as_integer_ratio")

    def after_promotion(v, case):
        """C16: the fingerprint is that of a freshly built vector of the same cells; C05: broadcast methods see the cells"""
        cells = list(v)
        st, fp, e = attempt(lambda: v.fingerprint())
        st0, fp0, e0 = attempt(lambda: Vector(list(cells)).fingerprint())
        if st == "ok" and st0 == "ok" and fp != fp0 and str(Vector(list(cells)).schema()) == str(v.schema()):
            F.add("fp_fresh", case, fp, fp0)
        own = set(dir(Vector))
        for name in probes:
            if name in own and name not in type(v).__dict__:
                continue
            try:
                exp = [None if x is None else (getattr(x, name)() if callable(getattr(x, name)) else getattr(x, name)) for x in cells]
            except Exception:      # noqa: BLE001
                continue
            if all(x is None for x in cells):
                continue
            stb, r, eb = attempt(lambda: getattr(v, name)() if callable(getattr(type(next(x for x in cells if x is not None)), name, None)) else getattr(v, name))
            if stb != "ok" or not isinstance(r, Vector):
                continue
            if not views_equal(list(r), exp):
                F.add("form_broadcast", dict(case, attribute=name), list(r), exp)
    vwrites = {"v[1] = x": lambda v, x: v.__setitem__(1, x), "v[-1] = x": lambda v, x: v.__setitem__(-1, x), "v[0:2] = [x, x]": lambda v, x: v.__setitem__(slice(0, 2), [x, x]),
               "v[mask] = x": lambda v, x: v.__setitem__([True, False, False], x), "v[[2]] = [x]": lambda v, x: v.__setitem__([2], [x]), "v[:] = x": lambda v, x: v.__setitem__(slice(None), x)}
    twrites = {"t[1, 'due'] = x": lambda t, x: t.__setitem__((1, "due"), x), "t[0:2, 'due'] = [x, x]": lambda t, x: t.__setitem__((slice(0, 2), "due"), [x, x]),
               "t.due[1] = x": lambda t, x: t.due.__setitem__(1, x), "t['due'][2] = x": lambda t, x: t["due"].__setitem__(2, x),
               "t[1] = [id, x, s]": lambda t, x: t.__setitem__(1, [99, x, "row"]), "t[1, 1] = x": lambda t, x: t.__setitem__((1, 1), x)}
    for sname, (vals, x) in steps.items():
        for wname, write in vwrites.items():
            for nm in ("due", "Due Date", None):
                v = Vector(list(vals), name=nm)
                st, _, e = attempt(lambda: write(v, x))
                ex += 1
                if st != "ok":
                    continue
                case = {"promotion": sname, "written": wname, "name": nm}
                if v.name != nm:
                    F.add("names", case, v.name, nm)
                mon.see(v, "vector after a promoting write (" + sname + ")")
                if nm == "due":
                    after_promotion(v, case)
                st2, w, e2 = attempt(lambda: v[0:2])
                if st2 == "ok" and isinstance(w, Vector):
                    if w.name != nm:
                        F.add("names", dict(case, then="v[0:2]"), w.name, nm)
                    mon.see(w, "slice after a promoting write")
        # a REFUSED write of a promoting value (index out of range, lengths that differ) after the fingerprint was read:
        # the vector is exactly what it was - cells, dtype, name - and its fingerprint is still that of its cells
        refused = {"v[[0, 7]] = [x, x]": lambda v, x: v.__setitem__([0, 7], [x, x]), "v[7] = x": lambda v, x: v.__setitem__(7, x),
                   "v[0:2] = [x]": lambda v, x: v.__setitem__(slice(0, 2), [x]), "v[[True, False]] = x": lambda v, x: v.__setitem__([True, False], x),
                   "v[Vector([0, -9])] = [x, x]": lambda v, x: v.__setitem__(Vector([0, -9]), [x, x]), "v[[0, 1]] = [x, object()] into a typed vector": None}
        for rname, rw in refused.items():
            if rw is None:
                continue
            for read_first in (True, False):
                v = Vector(list(vals), name="due")
                before = vec_view(v)
                if read_first:
                    attempt(lambda: v.fingerprint())
                st, _, e = attempt(lambda: rw(v, x))
                ex += 1
                case = {"promotion": sname, "refused write": rname, "fingerprint read before": read_first, "outcome": "accepted" if st == "ok" else type(e).__name__}
                if st == "ok":
                    continue
                if not views_equal(vec_view(v), before):
                    F.add("form_assign_atomic", case, vec_view(v), before)
                stf, fp, ef = attempt(lambda: v.fingerprint())
                stf0, fp0, ef0 = attempt(lambda: Vector(list(vals), name="due").fingerprint())
                if stf == "ok" and stf0 == "ok" and fp != fp0:
                    F.add("fp_fresh", case, fp, fp0)
        for rname, rw in (("t[[0, 7], 'due'] = [x, x]", lambda t, x: t.__setitem__(([0, 7], "due"), [x, x])), ("t[7, 'due'] = x", lambda t, x: t.__setitem__((7, "due"), x)),
                          ("t[0:2, 'due'] = [x]", lambda t, x: t.__setitem__((slice(0, 2), "due"), [x]))):
            t = Table([Vector([1, 2, 3], name="id"), Vector(list(vals), name="due")])
            before = table_view(t)
            attempt(lambda: t.fingerprint())
            attempt(lambda: t.due.fingerprint())
            st, _, e = attempt(lambda: rw(t, x))
            ex += 1
            if st == "ok":
                continue
            case = {"promotion": sname, "refused write": rname, "outcome": type(e).__name__}
            if not views_equal(table_view(t), before):
                F.add("grid_atomic", case, table_view(t), before)
            stf, fp, ef = attempt(lambda: (t.fingerprint(), t.due.fingerprint()))
            stf0, fp0, ef0 = attempt(lambda: (lambda u: (u.fingerprint(), u.due.fingerprint()))(Table([Vector([1, 2, 3], name="id"), Vector(list(vals), name="due")])))
            if stf == "ok" and stf0 == "ok" and fp != fp0:
                F.add("fp_fresh", case, fp, fp0)
        # the value of an assignment is an operand: a vector handed over as the value keeps its cells and its dtype, also when the
        # target is of a wider kind
        for kname, key, n in (("v[0:2] = w", slice(0, 2), 2), ("v[[0, 2]] = w", [0, 2], 2), ("v[mask] = w", [True, False, True], 2), ("v[:] = w", slice(None), 3)):
            v = Vector(list(vals), name="due")
            attempt(lambda: v.__setitem__(1, x))               # the target is of the wider kind now
            src_cells = list(vals)[:n]
            w = Vector(list(src_cells), name="src")
            before = vec_view(w)
            st, _, e = attempt(lambda: v.__setitem__(key, w))
            ex += 1
            if not views_equal(vec_view(w), before):
                F.add("operands_unchanged", {"promotion": sname, "assignment": kname, "value": "a vector of the narrower kind", "outcome": "ok" if st == "ok" else type(e).__name__},
                      vec_view(w), before)
        tsrc = Table([Vector(list(vals), name="p"), Vector(list(vals), name="q")])
        ttgt = Table([Vector(list(vals), name="a"), Vector(list(vals), name="b")])
        attempt(lambda: ttgt.__setitem__((1, "a"), x))
        attempt(lambda: ttgt.__setitem__((1, "b"), x))
        before = table_view(tsrc)
        for kname, w in (("t[:, :] = other table", lambda: ttgt.__setitem__((slice(None), slice(None)), tsrc)), ("t[0:3, ('a','b')] = other table", lambda: ttgt.__setitem__((slice(0, 3), ("a", "b")), tsrc)),
                         ("t[:, ('a','b')] = [other.p, other.q]", lambda: ttgt.__setitem__((slice(None), ("a", "b")), [tsrc.p, tsrc.q]))):
            st, _, e = attempt(w)
            ex += 1
            if not views_equal(table_view(tsrc), before):
                F.add("operands_unchanged", {"promotion": sname, "assignment": kname, "value": "a table / columns of the narrower kind", "outcome": "ok" if st == "ok" else type(e).__name__},
                      table_view(tsrc), before)
                tsrc = Table([Vector(list(vals), name="p"), Vector(list(vals), name="q")])
                before = table_view(tsrc)
        for wname, write in twrites.items():
            t = Table([Vector([1, 2, 3], name="id"), Vector(list(vals), name="due"), Vector(["p", "q", "r"], name="note")])
            st, _, e = attempt(lambda: write(t, x))
            ex += 1
            if st != "ok":
                continue
            case = {"promotion": sname, "written": wname}
            if t.column_names() != ["id", "due", "note"]:
                F.add("names", case, t.column_names(), ["id", "due", "note"])
            if [c.name for c in t.cols()] != ["id", "due", "note"]:
                F.add("names", dict(case, read="column objects"), [c.name for c in t.cols()], ["id", "due", "note"])
            for col in t.cols():
                mon.see(col, "column after a promoting table write (" + sname + ")")
            after_promotion(t.cols()[1], dict(case, column="due"))
            for dname, d in (("t[0:2]", lambda: t[0:2]), ("t.copy()", lambda: t.copy()), ("t[('due','id')]", lambda: t[("due", "id")]), ("t.sort_by('id')", lambda: t.sort_by("id"))):
                st2, r, e2 = attempt(d)
                if st2 == "ok" and isinstance(r, Table):
                    want = ["due", "id"] if dname.startswith("t[('due'") else ["id", "due", "note"]
                    if r.column_names() != want:
                        F.add("names", dict(case, then=dname), r.column_names(), want)
    # column names that are not strings: the aggregate / window outputs are named as for the name's text (1 -> '1', True ->
    # 'True', 1.0 -> '1.0'), whichever names - equal across types or not - were seen before, in this table or another
    # (falsy names - 0, False, 0.0 - are read as "no name" by the pinned tree, like None and ""; they are left out)
    from decimal import Decimal as _Dec
    from fractions import Fraction as _Fr
    odd_names = [1, True, 1.0, 2, 2.0, -1, 10 ** 20, _Dec(1), _Fr(1), _Dec("1.0"), 1 + 0j]
    for order in (odd_names, list(reversed(odd_names)), odd_names[2:] + odd_names[:2]):
        for m in ("aggregate", "window"):
            for nm in order:
                def names_of(name):
                    t = Table([Vector(["x", "y", "x"], name="g"), Vector([1, 2, 3], name=name)])
                    return getattr(t, m)(over="g", sum_over=t.cols()[1], max_over=t.cols()[1]).column_names()
                st, got, e = attempt(lambda: names_of(nm))
                st0, want, e0 = attempt(lambda: names_of(str(nm)))
                ex += 1
                if st != "ok" or st0 != "ok":
                    continue
                if got != want:
                    F.add("agg_names", {"call": m, "column named": repr(nm), "names seen before": [repr(x) for x in order[:order.index(nm)]]}, got, want)
        # ... and together in one table
        for m in ("aggregate", "window"):
            def names_all(conv):
                t = Table([Vector(["x", "y", "x"], name="g")] + [Vector([1, 2, 3], name=conv(nm)) for nm in order[:4]])
                return getattr(t, m)(over="g", sum_over=list(t.cols()[1:])).column_names()
            st, got, e = attempt(lambda: names_all(lambda x: x))
            st0, want, e0 = attempt(lambda: names_all(str))
            ex += 1
            if st == "ok" and st0 == "ok" and got != want:
                F.add("agg_names", {"call": m, "columns named": [repr(x) for x in order[:4]]}, got, want)
    return ex


def main():
    out = sys.argv[1]
    F, mon = Fails(), Monitor()
    ex = elementwise(F, mon) + indexing(F, mon) + relational(F, mon) + purity(F, mon) + grid2d(F, mon) + held_views(F, mon) + history_reads(F, mon) + odd_operands(F, mon) + promotions(F, mon) + self_values(F, mon) + mixed_shapes(F, mon)
    json.dump({"executed": ex, "failures": F.items, "per_clause": F.per, "skipped": {}, **mon.dump()}, open(out, "w"), default=str)


if __name__ == "__main__":
    main()
