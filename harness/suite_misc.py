"""SerifMisc: specification growth beyond the listed properties (unique, argsort, @, peek sampling).
Run as part of the thorough tier of C01 (purity of value-returning operations) and C05 (arithmetic)."""
import json
import os

import engine


def gen(rep, suites, clauses):
    sc = engine.scratch()
    for s in suites:
        cfg = f"""INIT Init
NEXT Next
CONSTANTS
  SortDevs = {{}}
  Suite = "{s}"
  MaxN = 4
INVARIANT Emit
INVARIANT Laws
CHECK_DEADLOCK FALSE
"""
        r = engine.run_tlc("Gen_Misc", cfg, timeout=900)
        rep.add_mc(r, f"Gen_Misc {s} (growth beyond the listed properties): laws + cases")
        cases = [dict(c, _n=i) for i, (_, c) in enumerate(r.prints)]
        cp, op = os.path.join(sc, f"misc_{s}.json"), os.path.join(sc, f"misc_{s}_out.json")
        json.dump(cases, open(cp, "w"))
        engine.run_driver("drv_misc.py", ["replay", s, cp, op])
        out = json.load(open(op))
        rep.gen_cases += out["executed"]
        rep.extra.setdefault("growth_suites", {})[s] = {"cases": len(cases), "executed": out["executed"],
                                                         "disagreements": out["per_clause"]}
        for f in out["failures"]:
            if f["clause"] in clauses:
                rep.fail(f["clause"], "misc." + s, {k: v for k, v in f.items() if k not in ("clause", "observed", "expected")},
                         f["observed"], f["expected"])
            else:
                rep.notes.append(f"misc.{s}: {f['clause']} disagrees with the growth spec (outside the listed properties): "
                                 f"{json.dumps(f['observed'], default=str)[:120]} vs {json.dumps(f['expected'], default=str)[:120]}")
