"""SerifVector suite: indexing (C07), elementwise (C05), None handling (C06), assignment (C08)."""
import engine
import suite_rel


def _cfg(suite, maxn=4, bound=6):
    return f"""INIT Init
NEXT Next
CONSTANTS
  Devs = {{}}
  Suite = "{suite}"
  MaxN = {maxn}
  Bound = {bound}
INVARIANT Emit
CHECK_DEADLOCK FALSE
"""


def mc(rep, tier):
    r = engine.run_tlc("MC_Vector", "MC_Vector_quick.cfg", timeout=900)
    rep.add_mc(r, "SerifVector laws: slices = filter definition, isna/dropna/fillna laws, elementwise shape/None laws")


def mc_assign(rep):
    r = engine.run_tlc("MC_Assign", "MC_Assign_main.cfg", timeout=600)
    rep.add_mc(r, "assignment step machine with faults: Atomic, Truthful, Succeeds")
    for d, inv in (("ValidateFirstOnly", "Truthful"), ("PromoteInLoop", "Atomic"), ("PartialRowWrite", "Atomic")):
        x = engine.run_tlc("MC_Assign", f"MC_Assign_{d}.cfg", expect_violation=True, timeout=600)
        rep.add_dev(d, x, {inv})


def gen(rep, tier, suites, clauses):
    mon = {"truth": [], "rule": [], "writeback": []}
    for s in suites:
        maxn = 4 if tier == "quick" or s in ("slice",) else 5
        if s == "slice" and tier == "thorough":
            cfg = _cfg(s, 5, 7)
        else:
            cfg = _cfg(s, maxn, 6)
        m = suite_rel.gen(rep, "vec." + s, "Gen_Vector", [(s, cfg)], "replay", clauses, driver="drv_vec.py",
                          ) if False else _gen_one(rep, s, cfg, clauses)
        mon["truth"] += m["truth"]
        mon["rule"] += m["rule"]
        mon["writeback"] += m.get("writeback", [])
    return mon


def _gen_one(rep, s, cfg, clauses):
    import json
    import os
    r = engine.run_tlc("Gen_Vector", cfg, timeout=1800)
    rep.add_mc(r, f"Gen_Vector suite {s}")
    cases = [dict(c, _n=i) for i, (_, c) in enumerate(r.prints)]
    if not cases:
        raise engine.MachineryError("Gen_Vector emitted nothing for " + s)
    sc = engine.scratch()
    cp, op = os.path.join(sc, f"vec_{s}.json"), os.path.join(sc, f"vec_{s}_out.json")
    json.dump(cases, open(cp, "w"))
    rep.sample({"suite": "vec." + s, "case": cases[len(cases) // 2]})
    p = engine.run_driver("drv_vec.py", ["replay", s, cp, op], timeout=1800)
    out = json.load(open(op))
    rep.gen_cases += out["executed"]
    for k, v in out["skipped"].items():
        rep.skip(k, v)
    for f in out["failures"]:
        if f["clause"] in clauses:
            case = {k: v for k, v in f.items() if k not in ("clause", "observed", "expected")}
            rep.fail(f["clause"], "vec." + s, case, f["observed"], f["expected"])
    return out


SPEC_KEYS = ["id", "op", "n", "s", "e", "st", "idx", "mask", "key", "value", "ok", "contents", "mode", "la", "lb", "na", "nb",
             "nonepos", "len", "vals", "isna", "dropna", "fill"]


def trace(rep, tier, seed, clauses, ops=None):
    n = 1500 if tier == "quick" else 20000
    sel = (lambda e: e["op"] in ops) if ops else None
    return suite_rel.trace(rep, "vec", "Trace_Vector", "Trace_Vector.cfg", "record", [seed, n], SPEC_KEYS, clauses,
                           hashseed=seed % 1000, driver="drv_vec.py", select=sel)


def enumerated(rep, which, clauses):
    import json
    import os
    sc = engine.scratch()
    op = os.path.join(sc, f"vec_{which}_out.json")
    engine.run_driver("drv_vec.py", [which, op], timeout=900)
    out = json.load(open(op))
    rep.gen_cases += out["executed"]
    for f in out["failures"]:
        if f["clause"] in clauses:
            rep.fail(f["clause"], "vec." + which, f["case"], f["observed"], f["expected"])
    return {k: out.get(k, []) for k in ("truth", "rule", "writeback")}


def forms(rep, clauses):
    """argument-form independence (drv_forms.py): every other way of handing over the same operand / key / value /
    column gives what the spec-checked canonical form gives, or is rejected"""
    import json
    import os
    sc = engine.scratch()
    op = os.path.join(sc, "forms_out.json")
    engine.run_driver("drv_forms.py", [op], timeout=900)
    out = json.load(open(op))
    rep.gen_cases += out["executed"]
    for f in out["failures"]:
        if f["clause"] in clauses:
            rep.fail(f["clause"], "forms", f["case"], f["observed"], f["expected"])
    return {k: out.get(k, []) for k in ("truth", "rule", "writeback")}
