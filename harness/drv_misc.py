"""Driver for SerifMisc (growth beyond the listed properties).  replay <suite> <cases.json> <out.json>"""
import json
import sys
import warnings

warnings.simplefilter("ignore")
from serif import Vector, Table                      # noqa: E402
import absval as A                                   # noqa: E402
from tabutil import views_equal, vec_view            # noqa: E402
from drv_vec import Fails, attempt                   # noqa: E402


def main():
    suite, cases = sys.argv[2], json.load(open(sys.argv[3]))
    F, ex = Fails(), 0
    for n, c in enumerate(cases):
        n = c.get("_n", n)
        if suite == "unique":
            for tag in ("int", "str", "date"):
                conc = lambda x: None if x == -1 else A.concrete(tag, x, n % 3)      # noqa: E731
                vals = [conc(x) for x in c["vals"]]
                v = Vector(list(vals), name="u")
                b = vec_view(v)
                st, r, e = attempt(lambda: v.unique())
                ex += 1
                exp = [conc(x) for x in c["out"]]
                if st != "ok" or not views_equal(list(r), exp):
                    F.add("unique", c, list(r) if st == "ok" else type(e).__name__, exp, tag=tag)
                if not views_equal(b, vec_view(v)):
                    F.add("operands_unchanged", c, "unique() changed its vector", "unchanged")
        elif suite == "argsort":
            for tag in ("int", "str", "float"):
                vals = [A.concrete(tag, x, n % 3) for x in c["vals"]]
                st, r, e = attempt(lambda: Vector(list(vals)).argsort())
                ex += 1
                if st != "ok" or list(r) != c["out"]:
                    F.add("argsort", c, list(r) if st == "ok" else type(e).__name__, c["out"], tag=tag)
        elif suite == "dot":
            a, b = c["a"], c["b"]
            if not a:
                continue
            st, r, e = attempt(lambda: Vector(list(a)) @ Vector(list(b)))
            ex += 1
            if st != "ok" or r != c["out"][0]:
                F.add("dot", c, r if st == "ok" else type(e).__name__, c["out"][0])
            st, r, e = attempt(lambda: Vector(list(a)) @ Vector(list(b) + [1]))
            if st == "ok":
                F.add("dot_length", c, r, "an error (lengths differ)")
        elif suite == "matvec":
            M, v = c["M"], c["v"]
            t = Table([Vector(list(col), name="m%d" % i) for i, col in enumerate(M)])
            st, r, e = attempt(lambda: t @ Vector(list(v)))
            ex += 1
            if st != "ok" or list(r) != c["out"]:
                F.add("matvec", c, list(r) if st == "ok" else type(e).__name__ + ": " + str(e)[:50], c["out"])
        elif suite == "sample":
            nrows, k = c["n"], c["k"]
            if nrows == 0:
                continue
            # peek() looks only at the sampled rows: plant None exactly there and read null_pct back
            idx = c["out"]
            col = [None if i in idx else 5 for i in range(nrows)]
            other = [5 if i in idx else None for i in range(nrows)]
            t = Table({"planted": col, "other": other})
            st, r, e = attempt(lambda: t.peek(sample=k))
            ex += 1
            if st != "ok":
                F.add("peek", c, type(e).__name__ + ": " + str(e)[:60], "a summary table")
                continue
            pct = list(r["null_pct"])
            exp = [100.0, 0.0] if idx else [0.0, 0.0]
            if pct != exp:
                F.add("peek_sample", c, pct, exp)
            if list(r["name"]) != ["planted", "other"] or len(r) != 2:
                F.add("peek", c, list(r["name"]), ["planted", "other"])
        elif suite == "transpose":
            for tag in ("int", "str"):
                conc = lambda x: None if x == -1 else A.concrete(tag, x, n % 3)      # noqa: E731
                M = [[conc(x) for x in col] for col in c["M"]]
                t = Table([Vector(list(col), name="m%d" % i) for i, col in enumerate(M)])
                before = [list(x) for x in t.cols()]
                st, r, e = attempt(lambda: t.T)
                ex += 1
                exp = [[conc(x) for x in col] for col in c["out"]]
                if st != "ok" or not isinstance(r, Table) or not views_equal([list(x) for x in r.cols()], exp):
                    F.add("transpose", c, [list(x) for x in r.cols()] if st == "ok" and isinstance(r, Table) else repr(e or r), exp, tag=tag)
                    continue
                st, r2, e = attempt(lambda: r.T)
                if st != "ok" or not views_equal([list(x) for x in r2.cols()], M):
                    F.add("transpose", c, "t.T.T differs from t", M, tag=tag)
                if not views_equal([list(x) for x in t.cols()], before):
                    F.add("operands_unchanged", c, "T changed its table", "unchanged")
        elif suite == "pluck":
            for form in ("list", "tuple", "str", "dict"):
                def item(i, cells):
                    if c["isnone"][i]:
                        return None
                    if form == "list":
                        return list(cells)
                    if form == "tuple":
                        return tuple(cells)
                    if form == "str":
                        return "".join(chr(48 + x % 70) for x in cells)
                    return {j: x for j, x in enumerate(cells)}
                items = [item(i, cells) for i, cells in enumerate(c["items"])]
                k = c["k"]
                if form == "dict" and k < 0:
                    continue
                v = Vector(list(items), name="p")
                st, r, e = attempt(lambda: v.pluck(k, default=-7))
                ex += 1
                exp = [x if x == -7 or form != "str" else chr(48 + x % 70) for x in c["out"]]
                if st != "ok" or not views_equal(list(r), exp):
                    F.add("pluck", c, list(r) if st == "ok" else type(e).__name__ + ": " + str(e)[:60], exp, form=form)
                if [x for x in v] != items:
                    F.add("operands_unchanged", c, "pluck changed its vector", "unchanged")
        elif suite == "isinstance":
            pytypes = {"int": int, "float": float, "str": str, "bool": bool, "none": type(None)}
            sample = {"int": 3, "float": 2.5, "str": "s", "bool": True, "none": None}
            vals = [sample[t] for t in c["tags"]]
            T = tuple(pytypes[t] for t in c["T"])
            for targ in ([T] + ([T[0]] if len(T) == 1 else [])):
                st, r, e = attempt(lambda: Vector(list(vals)).isinstance(targ))
                ex += 1
                if st != "ok" or list(r) != c["out"]:
                    F.add("isinstance", c, list(r) if st == "ok" else type(e).__name__, c["out"])
                elif vals and (r.schema() is None or r.schema().kind is not bool or r.schema().nullable):
                    F.add("isinstance_dtype", c, str(r.schema()), "<bool>")
        elif suite == "cast":
            srcs = {"int": lambda x: x + 1, "str": lambda x: str(x + 1), "float": lambda x: x + 0.5, "bool": lambda x: bool(x)}
            for sname, mk in srcs.items():
                vals = [None if x == -1 else mk(x) for x in c["vals"]]
                for tgt in (int, float, str, bool, complex):
                    try:
                        exp = [None if x is None else tgt(x) for x in vals]
                    except Exception:      # noqa: BLE001
                        continue
                    v = Vector(list(vals), name="c")
                    st, r, e = attempt(lambda: v.cast(tgt))
                    ex += 1
                    if st != "ok" or not views_equal(list(r), exp):
                        F.add("cast_values", c, list(r) if st == "ok" else type(e).__name__ + ": " + str(e)[:60], exp, source=sname, target=tgt.__name__)
                        continue
                    if [i + 1 for i, x in enumerate(r) if x is None] != sorted(c["nonepos"]):
                        F.add("cast_none", c, list(r), c["nonepos"])
                    sch = r.schema()
                    if vals and (sch is None or sch.kind is not tgt or bool(sch.nullable) != c["nullable"]):
                        F.add("cast_dtype", c, str(sch), tgt.__name__ + ("?" if c["nullable"] else ""), source=sname)
                    if r.name != "c":
                        F.add("cast_name", c, r.name, "c")
        elif suite == "tcompare":
            import operator
            ops = {"eq": operator.eq, "ne": operator.ne, "lt": operator.lt, "le": operator.le, "gt": operator.gt, "ge": operator.ge}
            for tag in ("int", "float", "str"):
                conc = lambda x: None if x == -1 else A.concrete(tag, x, n % 3)      # noqa: E731
                M = [[conc(x) for x in col] for col in c["M"]]
                if not M[0]:
                    continue
                t = Table([Vector(list(col), name="m%d" % i) for i, col in enumerate(M)])
                st, r, e = attempt(lambda: ops[c["op"]](t, conc(c["x"])))
                ex += 1
                if st != "ok" or not isinstance(r, Vector):
                    F.add("table_compare", c, type(e).__name__ + ": " + str(e)[:60] if st != "ok" else repr(r), c["out"], tag=tag)
                    continue
                got = [list(x) for x in r.cols()]
                if got != c["out"]:
                    F.add("table_compare", c, got, c["out"], tag=tag)
                for col in r.cols():
                    sch = col.schema()
                    if sch is None or sch.kind is not bool or sch.nullable:
                        F.add("table_compare_dtype", c, str(sch), "<bool>", tag=tag)
                # table compared with a table of the same shape (cell by cell, written operand order), and with a vector holding
                # one value per COLUMN
                N = [[conc((x + 1) % 3) if x != -1 else conc(1) for x in col] for col in c["M"]]
                t2 = Table([Vector(list(col), name="n%d" % i) for i, col in enumerate(N)])
                exp2 = [[False if a is None or b is None else bool(ops[c["op"]](a, b)) for a, b in zip(ca, cb)] for ca, cb in zip(M, N)]
                st, r2, e = attempt(lambda: ops[c["op"]](t, t2))
                ex += 1
                if st != "ok" or not isinstance(r2, Vector) or [list(x) for x in r2.cols()] != exp2:
                    F.add("table_compare", c, [list(x) for x in r2.cols()] if st == "ok" and isinstance(r2, Vector) else repr(e or r2)[:80], exp2, tag=tag, right="table")
                per_col = [conc(1 + (i % 2)) for i in range(len(M))]
                exp3 = [[False if a is None else bool(ops[c["op"]](a, per_col[i])) for a in col] for i, col in enumerate(M)]
                st, r3, e = attempt(lambda: ops[c["op"]](t, Vector(list(per_col))))
                ex += 1
                if st == "ok" and isinstance(r3, Vector) and len(M) > 1 and [list(x) for x in r3.cols()] != exp3:
                    F.add("table_compare", c, [list(x) for x in r3.cols()], exp3, tag=tag, right="vector with one value per column")
    json.dump({"executed": ex, "failures": F.items, "per_clause": F.per, "skipped": F.skipped}, open(sys.argv[4], "w"), default=str)


if __name__ == "__main__":
    main()
