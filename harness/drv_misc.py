"""Driver for SerifMisc (growth beyond the listed properties).  replay <suite> <cases.json> <out.json>"""
import json
import sys
import warnings

warnings.simplefilter("ignore")
from serif import Vector, Table                      # noqa: E402
import absval as A                                   # noqa: E402
from tabutil import views_equal, vec_view            # noqa: E402
from drv_vec import Fails, attempt                   # noqa: E402


def main():
    suite, cases = sys.argv[2], json.load(open(sys.argv[3]))
    F, ex = Fails(), 0
    for n, c in enumerate(cases):
        n = c.get("_n", n)
        if suite == "unique":
            for tag in ("int", "str", "date"):
                conc = lambda x: None if x == -1 else A.concrete(tag, x, n % 3)      # noqa: E731
                vals = [conc(x) for x in c["vals"]]
                v = Vector(list(vals), name="u")
                b = vec_view(v)
                st, r, e = attempt(lambda: v.unique())
                ex += 1
                exp = [conc(x) for x in c["out"]]
                if st != "ok" or not views_equal(list(r), exp):
                    F.add("unique", c, list(r) if st == "ok" else type(e).__name__, exp, tag=tag)
                if not views_equal(b, vec_view(v)):
                    F.add("operands_unchanged", c, "unique() changed its vector", "unchanged")
        elif suite == "argsort":
            for tag in ("int", "str", "float"):
                vals = [A.concrete(tag, x, n % 3) for x in c["vals"]]
                st, r, e = attempt(lambda: Vector(list(vals)).argsort())
                ex += 1
                if st != "ok" or list(r) != c["out"]:
                    F.add("argsort", c, list(r) if st == "ok" else type(e).__name__, c["out"], tag=tag)
        elif suite == "dot":
            a, b = c["a"], c["b"]
            if not a:
                continue
            st, r, e = attempt(lambda: Vector(list(a)) @ Vector(list(b)))
            ex += 1
            if st != "ok" or r != c["out"][0]:
                F.add("dot", c, r if st == "ok" else type(e).__name__, c["out"][0])
            st, r, e = attempt(lambda: Vector(list(a)) @ Vector(list(b) + [1]))
            if st == "ok":
                F.add("dot_length", c, r, "an error (lengths differ)")
        elif suite == "matvec":
            M, v = c["M"], c["v"]
            t = Table([Vector(list(col), name="m%d" % i) for i, col in enumerate(M)])
            st, r, e = attempt(lambda: t @ Vector(list(v)))
            ex += 1
            if st != "ok" or list(r) != c["out"]:
                F.add("matvec", c, list(r) if st == "ok" else type(e).__name__ + ": " + str(e)[:50], c["out"])
        elif suite == "sample":
            nrows, k = c["n"], c["k"]
            if nrows == 0:
                continue
            # peek() looks only at the sampled rows: plant None exactly there and read null_pct back
            idx = c["out"]
            col = [None if i in idx else 5 for i in range(nrows)]
            other = [5 if i in idx else None for i in range(nrows)]
            t = Table({"planted": col, "other": other})
            st, r, e = attempt(lambda: t.peek(sample=k))
            ex += 1
            if st != "ok":
                F.add("peek", c, type(e).__name__ + ": " + str(e)[:60], "a summary table")
                continue
            pct = list(r["null_pct"])
            exp = [100.0, 0.0] if idx else [0.0, 0.0]
            if pct != exp:
                F.add("peek_sample", c, pct, exp)
            if list(r["name"]) != ["planted", "other"] or len(r) != 2:
                F.add("peek", c, list(r["name"]), ["planted", "other"])
    json.dump({"executed": ex, "failures": F.items, "per_clause": F.per, "skipped": F.skipped}, open(sys.argv[4], "w"), default=str)


if __name__ == "__main__":
    main()
