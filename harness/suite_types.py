"""SerifTypes suite: MC of the dtype automaton, Gen replay, Trace validation (C04, C03 core)."""
import json
import os

import engine

QUICK_TAGS = '{"none","bool","int","float","complex","str","bytes","date","datetime","otherA"}'
ALL_TAGS = '{"none","bool","int","float","complex","str","bytes","date","datetime","list","dict","tuple","otherA","otherB"}'


def mc(rep, tier):
    r = engine.run_tlc("MC_Types", "MC_Types_quick.cfg" if tier == "quick" else "MC_Types_thorough.cfg",
                       coverage=True, timeout=900)
    rep.add_mc(r, "dtype automaton x set of tags seen: induction over all lengths and orders")
    d = engine.run_tlc("MC_Types", "MC_Types_dev_LeadingNoneObject.cfg", expect_violation=True)
    rep.add_dev("LeadingNoneObject", d, {"ReportIsLub"})


def _gen_cfg(tags, maxlen):
    return f"""INIT Init
NEXT Next
CONSTANTS
 Devs = {{}}
 UseTags = {tags}
 MaxLen = {maxlen}
INVARIANT Emit
INVARIANT InferIsLub
CHECK_DEADLOCK FALSE
"""


def gen(rep, tier, clauses=("dtype_rule",)):
    """TLC enumerates every tag sequence <= MaxLen and the promotion table; replay into serif."""
    if tier == "quick":
        cfg = _gen_cfg(QUICK_TAGS, 3)
    else:
        cfg = _gen_cfg(ALL_TAGS, 4)
    r = engine.run_tlc("Gen_Types", cfg, timeout=900)
    rep.add_mc(r, "Gen_Types: all tag sequences and the promotion table")
    cases = [c for _, c in r.prints]
    sc = engine.scratch()
    cp, op = os.path.join(sc, "types_cases.json"), os.path.join(sc, "types_out.json")
    json.dump(cases, open(cp, "w"))
    engine.run_driver("drv_types.py", ["replay", cp, op])
    out = json.load(open(op))
    rep.gen_cases += out["executed"]
    for c in cases[:2] + cases[-1:]:
        rep.sample({"suite": "types.gen", "case": c})
    for f in out["failures"]:
        if f["clause"] in clauses:
            rep.fail(f["clause"], "types.gen", {"case": f["case"], "palette": f["palette"], "api": f["api"]},
                     f["observed"], f["expected"], finding=_finding(f))
    return {"truth": out["truth"], "rule": [], "writeback": []}


def _finding(f):
    c = f["case"]
    if c.get("op") == "infer" and c["tags"] and c["tags"][0] == "none" and any(t != "none" for t in c["tags"]):
        return "C04-leading-none"
    return None


def trace(rep, tier, seed, clauses=("dtype_rule", "order_dependent", "unknown_tag", "unknown_kind", "promote_rule")):
    sc = engine.scratch()
    raw = os.path.join(sc, "types_trace_raw.ndjson")
    n = 2000 if tier == "quick" else 10000
    engine.run_driver("drv_types.py", ["record", str(seed), str(n), raw])
    evs = engine.read_ndjson(raw)
    validate(rep, evs, "types.trace", clauses)


SPEC_KEYS = ["id", "op", "tags", "kind", "nullable", "tag", "rkind", "rnullable", "dtypes"]


def validate(rep, evs, suite, clauses, finding=None):
    """Have TLC (Trace_Types) judge every event; report rejected ones that belong to `clauses`."""
    if not evs:
        return
    sc = engine.scratch()
    for i, e in enumerate(evs):
        e["id"] = i + 1
    path = os.path.join(sc, f"{suite}.ndjson")
    engine.write_ndjson(path, evs, SPEC_KEYS)
    r = engine.run_tlc("Trace_Types", "Trace_Types.cfg", env={"TRACE_FILE": path}, workers=1,
                       tags=("VERDICT",), timeout=900)
    if not r.prints:
        raise engine.MachineryError("Trace_Types printed no verdict\n" + r.out[-2000:])
    v = r.prints[0][1]
    if v["n"] != len(evs):
        raise engine.MachineryError(f"Trace_Types consumed {v['n']} of {len(evs)} events")
    rep.trace_events += len(evs)
    rep.sample({"suite": suite, "event": evs[0]})
    for eid, clause in v["bad"]:
        e = evs[eid - 1]
        if clause in clauses:
            fid = finding(e) if finding else _trace_finding(e)
            rep.fail(clause, suite, e, {"reported": [e.get("kind"), e.get("nullable")], "dtypes": e.get("dtypes")},
                     "spec verdict: " + clause, finding=fid, direction="trace")


def _trace_finding(e):
    if e.get("op") == "infer" and e.get("seq") and e["seq"][0] == "none":
        return "C04-leading-none"
    return None
