"""Generic Gen/Trace plumbing for the stateless relational suites (sort, group)."""
import json
import os

import engine


def gen(rep, suite, module, cfgs, replay_cmd, clauses, hashseeds=(0,), driver="drv_rel.py", finding=None):
    sc = engine.scratch()
    mon = {"truth": [], "rule": [], "writeback": []}
    for label, cfg in cfgs:
        r = engine.run_tlc(module, cfg, timeout=1800)
        rep.add_mc(r, f"{module} {label}")
        cases = [dict(c, _n=i) for i, (_, c) in enumerate(r.prints)]
        if not cases:
            raise engine.MachineryError(f"{module} [{label}] emitted no cases\n{r.out[-1500:]}")
        cp = os.path.join(sc, f"{suite}_cases.json")
        json.dump(cases, open(cp, "w"))
        rep.sample({"suite": suite + ".gen", "case": cases[len(cases) // 2]})
        for hs in hashseeds:
            op = os.path.join(sc, f"{suite}_out_{hs}.json")
            engine.run_driver(driver, [replay_cmd, cp, op], hashseed=hs)
            out = json.load(open(op))
            rep.gen_cases += out["executed"]
            for k, v in out.get("skipped", {}).items():
                rep.skip(k, v)
            for f in out["failures"]:
                if f["clause"] in clauses:
                    case = {k: v for k, v in f.items() if k not in ("clause", "observed", "expected")}
                    case["hashseed"] = hs
                    rep.fail(f["clause"], suite + ".gen", case, f["observed"], f["expected"],
                             finding=finding(f) if finding else None)
            mon["truth"] += out.get("truth", [])
            mon["rule"] += out.get("rule", [])
            mon["writeback"] += out.get("writeback", [])
    return mon


def trace(rep, suite, module, cfg, record_cmd, record_args, spec_keys, clauses, hashseed=0,
          driver="drv_rel.py", py_clauses=None, select=None, finding=None):
    """Record executions of the real code, have TLC judge them; py_clauses(e) yields extra
    (clause, observed, expected) judged on recorded fields that are not part of the spec event."""
    sc = engine.scratch()
    raw = os.path.join(sc, f"{suite}_trace_raw.ndjson")
    engine.run_driver(driver, [record_cmd] + [str(a) for a in record_args] + [raw], hashseed=hashseed)
    evs = engine.read_ndjson(raw)
    mon = evs.pop() if evs and evs[-1].get("op") == "_monitor" else {"truth": [], "rule": [], "writeback": []}
    use = []
    for e in evs:
        if e.get("skipped"):
            rep.skip(e["skipped"])
        elif select is None or select(e):
            use.append(e)
    if not use:
        return mon
    path = os.path.join(sc, f"{suite}_trace_tlc.ndjson")
    engine.write_ndjson(path, use, spec_keys)
    r = engine.run_tlc(module, cfg, env={"TRACE_FILE": path}, workers=1, tags=("VERDICT",), timeout=1800)
    if not r.prints:
        raise engine.MachineryError(f"{module} printed no verdict\n{r.out[-2000:]}")
    v = r.prints[0][1]
    if v["n"] != len(use):
        raise engine.MachineryError(f"{module} consumed {v['n']} of {len(use)} events")
    rep.trace_events += len(use)
    rep.sample({"suite": suite + ".trace", "event": {k: use[0][k] for k in spec_keys if k in use[0]}})
    byid = {e["id"]: e for e in use}
    for eid, clause in v["bad"]:
        if clause in clauses:
            e = byid[eid]
            rep.fail(clause, suite + ".trace", e, {k: e.get(k) for k in ("perm", "out", "keys", "wkeys", "calls", "err", "rows")
                                                   if k in e}, "spec verdict: " + clause,
                     finding=finding(e) if finding else None, direction="trace")
    if py_clauses:
        for e in use:
            for clause, obs, exp in py_clauses(e):
                if clause in clauses:
                    rep.fail(clause, suite + ".trace", e, obs, exp, direction="trace")
    return mon
