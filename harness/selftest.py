"""Binding self-test: corrupt ONE recorded field of a real trace and require the trace spec to
reject exactly that event (and nothing before it).  Run:  /venv/bin/python harness/selftest.py"""
import copy
import json
import os
import sys

sys.path.insert(0, os.path.dirname(os.path.abspath(__file__)))
import engine
import suite_join
import suite_sort


def heap():
    sc = engine.scratch()
    raw = os.path.join(sc, "st_heap.ndjson")
    engine.run_driver("drv_heap.py", ["record", "7", "40", "25", raw])
    evs = engine.read_ndjson(raw)
    results = []
    # choose events to corrupt: a Write outcome, a contents cell, a registry entry, a name
    cands = [i for i, e in enumerate(evs) if e["a"] == "Write" and e["res"] == "Ok"]
    muts = []
    if cands:
        i = cands[len(cands) // 2]
        muts.append(("outcome Ok->Refused", i, lambda e: e.__setitem__("res", "Refused")))
        j = cands[len(cands) // 3]

        def flip(e):
            s = e["post"]["store"][e["x"] - 1]
            e["post"]["heap"][s - 1][0] = 1 - e["post"]["heap"][s - 1][0] if e["post"]["heap"][s - 1][0] in (0, 1) else 0
        muts.append(("one contents cell", j, flip))
        k = cands[-1]
        muts.append(("a spurious registration", k, lambda e: e["post"]["reg"][e["post"]["store"][e["x"] - 1] - 1].append(
            next(o for o in e["post"]["live"] if o != e["x"]) if len(e["post"]["live"]) > 1 else 99)))
    for label, idx, fn in muts:
        c = copy.deepcopy(evs)
        fn(c[idx])
        path = os.path.join(sc, "st_heap_mut.ndjson")
        engine.write_ndjson(path, c)
        r = engine.run_tlc("Trace_Heap", "Trace_Heap.cfg", env={"TRACE_FILE": path}, workers=1, tags=("VERDICT",))
        bad = r.prints[-1][1]["bad"]
        hit = [b for b in bad if b[0] == evs[idx]["tid"] and b[1] == evs[idx]["i"]]
        results.append(("heap: " + label, bool(hit) and len(bad) == 1, bad[:3]))
    return results


def rel():
    sc = engine.scratch()
    out = []
    raw = os.path.join(sc, "st_join.ndjson")
    engine.run_driver("drv_rel.py", ["record_join", "3", "60", "8", raw])
    evs = [e for e in engine.read_ndjson(raw) if e.get("op") == "join" and not e.get("skipped")]
    idx = next(i for i, e in enumerate(evs) if e["res"] == "ok" and len(e["rows"]) >= 2)
    c = copy.deepcopy(evs)
    c[idx]["rows"][0], c[idx]["rows"][1] = c[idx]["rows"][1], c[idx]["rows"][0]
    path = os.path.join(sc, "st_join_mut.ndjson")
    engine.write_ndjson(path, c, suite_join.SPEC_KEYS)
    r = engine.run_tlc("Trace_Join", "Trace_Join.cfg", env={"TRACE_FILE": path}, workers=1, tags=("VERDICT",))
    bad = r.prints[0][1]["bad"]
    same = evs[idx]["rows"][0] == evs[idx]["rows"][1]
    out.append(("join: two result rows swapped", (len(bad) == 1 and bad[0][0] == evs[idx]["id"]) or same, bad[:3]))
    raw = os.path.join(sc, "st_sort.ndjson")
    engine.run_driver("drv_rel.py", ["record_sort", "3", "60", "8", raw])
    evs = [e for e in engine.read_ndjson(raw) if e.get("op") == "tsort" and len(e.get("perm", [])) >= 2 and e["perm"][0] > 0]
    c = copy.deepcopy(evs)
    c[0]["perm"][0], c[0]["perm"][1] = c[0]["perm"][1], c[0]["perm"][0]
    path = os.path.join(sc, "st_sort_mut.ndjson")
    engine.write_ndjson(path, c, suite_sort.SPEC_KEYS)
    r = engine.run_tlc("Trace_Sort", "Trace_Sort.cfg", env={"TRACE_FILE": path}, workers=1, tags=("VERDICT",))
    bad = r.prints[0][1]["bad"]
    out.append(("sort: two positions of the permutation swapped", len(bad) == 1 and bad[0][0] == c[0]["id"], bad[:3]))
    return out


if __name__ == "__main__":
    res = heap() + rel()
    ok = True
    for label, good, bad in res:
        print(("REJECTED-AS-EXPECTED " if good else "NOT-DETECTED ") + label, bad)
        ok &= good
    sys.exit(0 if ok else 2)
