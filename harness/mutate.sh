#!/bin/sh
# usage: mutate.sh <python-expr-old> <python-expr-new> <file> <prop>...  : apply textual mutation to /repo, run checks, revert
old="$1"; new="$2"; file="$3"; shift 3
cd /repo || exit 2
git diff --quiet || { echo "repo dirty"; exit 2; }
/venv/bin/python - "$old" "$new" "$file" <<'PY'
import sys
old,new,f=sys.argv[1:4]
s=open(f).read()
assert s.count(old)>=1, "pattern not found"
open(f,'w').write(s.replace(old,new,1))
PY
[ $? -eq 0 ] || exit 2
/venv/bin/python -m pytest -q -p no:cacheprovider -x 2>&1 | tail -1
for p in "$@"; do
  (cd /verif && ./check $p 2>&1 | grep -E "^(OK|VIOLATION|MACHINERY|KNOWN)" | head -3)
done
git checkout -- .
