"""Driver for the naming suites (C17, C18).

  reserved                       print the reserved accessor names (from dir(Vector) + dir(Table))
  replay <cases.json> <out.json>
"""
import json
import re
import sys
import warnings

warnings.simplefilter("ignore")
from serif import Vector, Table            # noqa: E402


def reserved():
    out = set()
    for cls in (Vector, Table):
        for name in dir(cls):
            if name.startswith("_"):
                continue
            attr = getattr(cls, name, None)
            if callable(attr) or isinstance(attr, property):
                out.add(name.lower())
    return out


NONE = ["NONE"]
CASINGS = [lambda s: s, lambda s: s.upper(), lambda s: s.title()]


def dot_row(rep):
    """accessor names shown in the dot row of a table repr ('' if the repr shows none)"""
    for line in rep.splitlines():
        toks = line.split()
        if toks and all(t.startswith(".") or t == "..." for t in toks):
            return [t[1:] for t in toks if t != "..."]
    return None


def replay(cases_path, out_path):
    cases = json.load(open(cases_path))
    res = reserved()
    fails, per, executed, skipped = [], {}, 0, {}
    spelled = set()

    def fail(clause, c, obs, exp, **extra):
        per[clause] = per.get(clause, 0) + 1
        if per[clause] <= 30:
            fails.append({"clause": clause, "case": c, "observed": obs, "expected": exp, **extra})

    for n, c in enumerate(cases):
        n = c.get("_n", n)
        suite = c["suite"]
        casing = CASINGS[n % 3] if c["suite"] not in ("agg", "agg2") else CASINGS[0]
        names = [None if nm == NONE else casing("".join(nm)) for nm in c["names"]]
        exp = ["".join(a) for a in c["cmap"]]
        executed += 1
        if suite == "sanitize":
            from serif.naming import _sanitize_user_name
            got = _sanitize_user_name(names[0])
            if (got or "") != exp[0]:
                fail("sanitize", c, got, exp[0], name=names[0])
            continue
        if suite == "agg2":
            nk = c["nkeys"]
            keys, (c1, c2, ap) = names[:nk], names[nk:]
            cols = [Vector([1, 1, 2], name=k) for k in keys] + [Vector([1, 2, 3], name=c1), Vector([4, 5, 6], name=c2)]
            t = Table(cols)
            tc = t.cols()
            for method in ("aggregate", "window"):
                try:
                    r = getattr(t, method)(over=list(tc[:nk]), sum_over=[tc[nk], tc[nk + 1]], apply={ap: (tc[nk], len)})
                except Exception as ex:       # noqa: BLE001
                    fail("agg_names", c, "raised " + type(ex).__name__ + ": " + str(ex)[:60], exp, method=method)
                    continue
                got = r.column_names()
                if got != exp:
                    fail("agg_names", c, got, exp, method=method, names=names)
                if len(set(got)) != len(got):
                    fail("agg_names_distinct", c, got, "pairwise distinct", method=method)
            continue
        if suite == "agg":
            k, a, b = names
            sfx = ["".join(s) for s in c["sfx"]]
            t = Table([Vector([1, 1, 2], name=k), Vector([1, 2, 3], name=a), Vector([4, 5, 6], name=b)])
            cols = t.cols()
            for method in ("aggregate", "window"):
                kw = {}
                if sfx[0] == sfx[1]:
                    kw[sfx[0] + "_over"] = [cols[1], cols[2]]
                else:
                    kw[sfx[0] + "_over"] = cols[1]
                    kw[sfx[1] + "_over"] = cols[2]
                try:
                    r = getattr(t, method)(over=cols[0], **kw)
                except Exception as ex:       # noqa: BLE001
                    fail("agg_names", c, "raised " + type(ex).__name__, exp, method=method)
                    continue
                got = r.column_names()
                # built-ins are emitted in the fixed order sum, mean, min, max, count, stdev: reorder expectation
                order = ["sum", "mean", "min", "max", "count", "stdev"]
                if sfx[0] != sfx[1] and order.index(sfx[0]) > order.index(sfx[1]):
                    skipped["aggregate emits built-ins in a fixed order (case generated in the other order)"] = \
                        skipped.get("aggregate emits built-ins in a fixed order (case generated in the other order)", 0) + 1
                    continue
                # key name keeps its stored spelling (only the aggregate part is sanitised)
                exp2 = list(exp)
                if k is not None:
                    exp2[0] = k
                    # uniquification is case sensitive on the stored key name: recompute only when casing changed nothing
                    if k != k.lower():
                        skipped["key name with upper case (uniquification compares stored spelling)"] = \
                            skipped.get("key name with upper case (uniquification compares stored spelling)", 0) + 1
                        continue
                if got != exp2:
                    fail("agg_names", c, got, exp2, method=method, names=names)
                if len(set(got)) != len(got):
                    fail("agg_names_distinct", c, got, "pairwise distinct", method=method)
            # the output names depend on the columns' STORED names, not on how the caller spelled the column:
            # by vector, by stored name, by lower / upper case, by sanitised accessor, by positional accessor
            from serif.naming import _sanitize_user_name

            def spellings(i, nm):
                cands = [nm, nm.lower(), nm.upper(), _sanitize_user_name(nm)] if nm is not None else []
                cands.append("col%d_" % (i + 1))
                out = []
                for cand in cands:
                    if not cand or cand in out:
                        continue
                    try:
                        if t[cand] is cols[i]:
                            out.append(cand)
                    except Exception:      # noqa: BLE001
                        pass
                return out
            if (k, a) in spelled:
                continue
            spelled.add((k, a))
            for method in ("aggregate", "window"):
                try:
                    ref = getattr(t, method)(over=cols[0], sum_over=cols[1]).column_names()
                except Exception:      # noqa: BLE001
                    continue
                for ks in [cols[0]] + spellings(0, k):
                    for vs in [cols[1]] + spellings(1, a):
                        if ks is cols[0] and vs is cols[1]:
                            continue
                        executed += 1
                        try:
                            got = getattr(t, method)(over=ks, sum_over=vs).column_names()
                        except Exception as ex:       # noqa: BLE001
                            got = "raised " + type(ex).__name__ + ": " + str(ex)[:60]
                        if got != ref:
                            fail("agg_names", c, got, ref, method=method, names=names,
                                 key_spelled=ks if isinstance(ks, str) else "<vector>", value_spelled=vs if isinstance(vs, str) else "<vector>")
            continue
        # ---- accessors
        w = len(names)
        t = Table([Vector([10 * (i + 1), 10 * (i + 1) + 1], name=names[i]) for i in range(w)])
        cols = t.cols()
        if t.column_names() != names:
            fail("stored_names", c, t.column_names(), names)
        d = set(dir(t))
        for i, acc in enumerate(exp):
            if acc not in d:
                fail("advertised", c, sorted(x for x in d if not x.startswith("_") and x not in res)[:8], acc, names=names)
            if not acc.isidentifier():
                fail("identifier", c, acc, "a valid identifier", names=names)
            if acc in res:
                fail("shadows_api", c, acc, "not a public Vector/Table attribute", names=names)
            try:
                r = getattr(t, acc)
                if r is not cols[i]:
                    fail("getattr", c, "another object", f"column {i}", accessor=acc, names=names)
            except AttributeError as ex:
                fail("getattr", c, "AttributeError", f"column {i}", accessor=acc, names=names)
            # as a column key in table item assignment
            t2 = Table([Vector([10 * (j + 1), 10 * (j + 1) + 1], name=names[j]) for j in range(w)])
            try:
                t2[0, acc] = 999
                hit = [j for j, col in enumerate(t2.cols()) if list(col)[0] == 999]
                if hit != [i]:
                    fail("setitem_key", c, hit, [i], accessor=acc, names=names)
            except Exception as ex:      # noqa: BLE001
                fail("setitem_key", c, "raised " + type(ex).__name__, [i], accessor=acc, names=names)
            # row attribute access
            try:
                if getattr(t[1], acc) != 10 * (i + 1) + 1:
                    fail("row_getattr", c, getattr(t[1], acc), 10 * (i + 1) + 1, accessor=acc, names=names)
            except AttributeError:
                fail("row_getattr", c, "AttributeError", 10 * (i + 1) + 1, accessor=acc, names=names)
        if len(set(exp)) != len(exp):
            raise SystemExit("SPEC-BUG: spec accessors not distinct " + repr(exp))
        # string indexing by a stored name resolves to its first occurrence
        for i, nm in enumerate(names):
            if nm is None:
                continue
            first = c["first"][i] - 1
            try:
                r = t[nm]
                if r is not cols[first]:
                    fail("string_index", c, "another column", first, name=nm, names=names)
            except Exception as ex:      # noqa: BLE001
                fail("string_index", c, "raised " + type(ex).__name__, first, name=nm, names=names)
            # ... in every TABLE key form that takes a stored name: a tuple of names, a (row slice, names) pair.  A form the library
            # does not take is outside this clause; a form it takes shows the FIRST column's cells.  (t[i, name] is not among
            # them: it reads the field of a Row, which is attribute access on the row, not string indexing of the table.)
            other = next((x for x in names if isinstance(x, str) and x != nm), None)
            want = list(cols[first])
            forms = {"t[(name,)]": lambda: t[(nm,)], "t[:, (name,)]": lambda: t[:, (nm,)], "t[:, name]": lambda: t[:, nm],
                     "t[0:1, name]": lambda: t[0:1, nm]}
            if other is not None:
                forms["t[(other, name)]"] = lambda: t[(other, nm)]
                forms["t[:, (other, name)]"] = lambda: t[:, (other, nm)]
            for how, fn in forms.items():
                try:
                    with warnings.catch_warnings():
                        warnings.simplefilter("ignore")
                        r = fn()
                except Exception:      # noqa: BLE001
                    continue
                if isinstance(r, Table):
                    got = list(r.cols()[-1])
                elif isinstance(r, Vector):
                    got = list(r)
                else:
                    got = [r]
                exp_cells = want if how != "t[0:1, name]" else want[0:1]
                if got != exp_cells:
                    fail("string_index", c, got, exp_cells, name=nm, names=names, form=how)
        # the dot row of the repr advertises the same accessors
        dr = dot_row(repr(t))
        if dr is not None and dr != exp:
            fail("repr_dot_row", c, dr, exp, names=names)
    json.dump({"executed": executed, "failures": fails, "per_clause": per, "skipped": skipped}, open(out_path, "w"), default=str)


WORDS = ["total", "Total", "TOTAL", "price ($)", "first name", "2024", "__x__", "a__1", "a__10", "col3_", "sum", "Max", "T",
         "cols", "column_names", "class", "def", "none", "None", "", " ", "_", "é", "ß", "İstanbul", "Kelvin K", "naïve café",
         "x" * 60, "col0_x", "col 3 (raw)", "col7_backup", "col1_", "COL2_", "tab\there", "new\nline", "a.b", "a-b", "a b", "a  b", "A_B", "名前", "emoji 😀", "²", "1", "copy", "name", "shape"]


def record(seed, n, out_path):
    import random
    rnd = random.Random(seed)
    res = reserved()
    with open(out_path, "w") as f:
        for eid in range(1, n + 1):
            w = rnd.choice([1, 2, 3, 4, 6, 9, 10, 11, 12, 14])
            pool = rnd.sample(WORDS, rnd.randint(1, min(6, len(WORDS))))
            names = []
            for _ in range(w):
                r = rnd.random()
                if r < 0.12:
                    names.append(None)
                elif r < 0.2:
                    names.append("".join(chr(rnd.choice([rnd.randint(32, 126), rnd.randint(160, 0x2FF), rnd.randint(0x400, 0x4FF)]))
                                         for _ in range(rnd.randint(1, 5))))
                else:
                    names.append(rnd.choice(pool))
            # every public attribute of Vector / Table appears as a column name at least once (alone, repeated, re-cased)
            reslist = sorted(res)
            if eid <= len(reslist):
                r0 = reslist[eid - 1]
                names = [[r0], [r0, r0], [r0.upper(), "x", r0], [r0 + " ", None]][eid % 4]
                w = len(names)
            t = Table([Vector([10 * (i + 1), 10 * (i + 1) + 1], name=names[i]) for i in range(w)])
            cols = t.cols()
            cmap = sorted(t._build_column_map().items(), key=lambda kv: kv[1])
            accs = [k for k, _ in cmap]
            d = set(dir(t))
            flags = {"stored": t.column_names() == names, "advertised": all(a in d for a in accs),
                     "identifier": all(a.isidentifier() for a in accs), "shadow": [a for a in accs if a in res],
                     "distinct": len(set(accs)) == len(accs) == w, "getattr": True, "setitem": True, "row": True, "dot": True}
            for i, a in enumerate(accs):
                try:
                    flags["getattr"] &= getattr(t, a) is cols[i]
                except AttributeError:
                    flags["getattr"] = False
                try:
                    flags["row"] &= getattr(t[1], a) == 10 * (i + 1) + 1
                except AttributeError:
                    flags["row"] = False
                t2 = Table([Vector([10 * (j + 1), 10 * (j + 1) + 1], name=names[j]) for j in range(w)])
                try:
                    t2[0, a] = 999
                    flags["setitem"] &= [j for j, c in enumerate(t2.cols()) if list(c)[0] == 999] == [i]
                except Exception:      # noqa: BLE001
                    flags["setitem"] = False
            try:
                dr = dot_row(repr(t))
                if dr is not None:
                    vis = list(range(w)) if w <= 10 else list(range(5)) + list(range(w - 5, w))
                    flags["dot"] = dr == [accs[i] for i in vis]
            except Exception:          # noqa: BLE001
                flags["dot"] = None    # repr failing is C20's concern
            absn = [["NONE"] if nm is None else [c if re.fullmatch(r"[a-z0-9_]", c) else "?" for c in str(nm).lower()] for nm in names]
            f.write(json.dumps({"id": eid, "names": absn, "cmap": [list(a) for a in accs], "flags": flags,
                                "orig": names}, ensure_ascii=True) + "\n")


if __name__ == "__main__":
    if sys.argv[1] == "record":
        record(int(sys.argv[2]), int(sys.argv[3]), sys.argv[4])
    elif sys.argv[1] == "reserved":
        print(" ".join(sorted(reserved())))
    else:
        replay(sys.argv[2], sys.argv[3])
